/-
Lemma library behind the SMT mirror in /verif/pyvc/lemmas.py.
`msum` = sum of a finite map over its key set (Finset.sum), `ssum` = sum of the first n entries of a
sequence (Finset.sum over Finset.range).  Closed forms of the tracker recurrences.
Checked by `lean` on every run of a property that uses one of them (no sorry, no axiom).
-/
import Mathlib.Algebra.BigOperators.Ring.Finset
import Mathlib.Algebra.BigOperators.Field
import Mathlib.Algebra.Order.BigOperators.Group.Finset
import Mathlib.Data.Real.Basic
import Mathlib.Tactic.Ring
import Mathlib.Tactic.Linarith
import Mathlib.Tactic.FieldSimp

open Finset

set_option linter.unusedSectionVars false

variable {α : Type*} [DecidableEq α]

/-- msum_empty -/
theorem msum_empty (f : α → ℝ) : ∑ x ∈ (∅ : Finset α), f x = 0 := Finset.sum_empty

/-- msum_insert: storing a fresh key adds its value -/
theorem msum_insert (s : Finset α) (k : α) (f : α → ℝ) (v : ℝ) (h : k ∉ s) :
    ∑ x ∈ insert k s, Function.update f k v x = (∑ x ∈ s, f x) + v := by
  rw [Finset.sum_insert h, Function.update_self]
  have : ∑ x ∈ s, Function.update f k v x = ∑ x ∈ s, f x := by
    apply Finset.sum_congr rfl
    intro x hx
    have : x ≠ k := fun e => h (e ▸ hx)
    simp [Function.update_of_ne this]
  rw [this]; ring

/-- msum_update: overwriting an existing key replaces its value -/
theorem msum_update (s : Finset α) (k : α) (f : α → ℝ) (v : ℝ) (h : k ∈ s) :
    ∑ x ∈ s, Function.update f k v x = (∑ x ∈ s, f x) - f k + v := by
  rw [← Finset.insert_erase h]
  have hk : k ∉ s.erase k := Finset.notMem_erase k s
  rw [Finset.sum_insert hk, Finset.sum_insert hk, Function.update_self]
  have : ∑ x ∈ s.erase k, Function.update f k v x = ∑ x ∈ s.erase k, f x := by
    apply Finset.sum_congr rfl
    intro x hx
    have : x ≠ k := Finset.ne_of_mem_erase hx
    simp [Function.update_of_ne this]
  rw [this]; ring

/-- msum_congr -/
theorem msum_congr (s : Finset α) (f g : α → ℝ) (h : ∀ x ∈ s, f x = g x) :
    ∑ x ∈ s, f x = ∑ x ∈ s, g x := Finset.sum_congr rfl h

/-- msum_linear -/
theorem msum_linear (s : Finset α) (f g h : α → ℝ) (a b : ℝ)
    (hh : ∀ x ∈ s, h x = a * f x + b * g x) :
    ∑ x ∈ s, h x = a * ∑ x ∈ s, f x + b * ∑ x ∈ s, g x := by
  rw [Finset.sum_congr rfl hh, Finset.sum_add_distrib, Finset.mul_sum, Finset.mul_sum]

/-- msum_scale -/
theorem msum_scale (s : Finset α) (f g : α → ℝ) (c : ℝ) (hh : ∀ x ∈ s, g x = f x * c) :
    ∑ x ∈ s, g x = (∑ x ∈ s, f x) * c := by
  rw [Finset.sum_congr rfl hh, Finset.sum_mul]

/-- msum_div -/
theorem msum_div (s : Finset α) (f g : α → ℝ) (c : ℝ) (hh : ∀ x ∈ s, g x = f x / c) :
    ∑ x ∈ s, g x = (∑ x ∈ s, f x) / c := by
  rw [Finset.sum_congr rfl hh, Finset.sum_div]

/-- msum_zero -/
theorem msum_zero (s : Finset α) (f : α → ℝ) (h : ∀ x ∈ s, f x = 0) : ∑ x ∈ s, f x = 0 :=
  Finset.sum_eq_zero h

/-- msum_nonneg -/
theorem msum_nonneg (s : Finset α) (f : α → ℝ) (h : ∀ x ∈ s, 0 ≤ f x) : 0 ≤ ∑ x ∈ s, f x :=
  Finset.sum_nonneg h

/-- ssum_zero -/
theorem ssum_zero (a : ℕ → ℝ) : ∑ i ∈ range 0, a i = 0 := Finset.sum_range_zero a

/-- ssum_succ -/
theorem ssum_succ (a : ℕ → ℝ) (n : ℕ) : ∑ i ∈ range (n + 1), a i = (∑ i ∈ range n, a i) + a n :=
  Finset.sum_range_succ a n

/-- ssum_const -/
theorem ssum_const (a : ℕ → ℝ) (n : ℕ) (c : ℝ) (h : ∀ i, i < n → a i = c) :
    ∑ i ∈ range n, a i = n * c := by
  rw [Finset.sum_congr rfl (fun i hi => h i (Finset.mem_range.mp hi))]
  simp

/-- ssum_congr -/
theorem ssum_congr (a b : ℕ → ℝ) (n : ℕ) (h : ∀ i, i < n → a i = b i) :
    ∑ i ∈ range n, a i = ∑ i ∈ range n, b i :=
  Finset.sum_congr rfl (fun i hi => h i (Finset.mem_range.mp hi))

/-! ### Tracker recurrences and their closed forms -/

/-- Welford mean recurrence: m (n+1) = m n + (v n - m n) / (n+1), m 0 = 0  ⇒  (n) * m n = Σ_{i<n} v i,
i.e. m n is the arithmetic mean of the first n values. -/
theorem welford_mean_closed (v m : ℕ → ℝ) (h0 : m 0 = 0)
    (hs : ∀ n, m (n + 1) = m n + (v n - m n) / ((n : ℝ) + 1)) :
    ∀ n : ℕ, (n : ℝ) * m n = ∑ i ∈ range n, v i := by
  intro n
  induction n with
  | zero => simp
  | succ k ih =>
    rw [Finset.sum_range_succ, ← ih, hs k]
    have hk : ((k : ℝ) + 1) ≠ 0 := by positivity
    push_cast
    field_simp
    ring

/-- population variance identity: with S1 = Σ v, S2 = Σ v², μ = S1/n:
    Σ (v i - μ)² = S2 - S1² / n  (what `N * M2 = N * S2 - S1²` says after dividing by N) -/
theorem var_identity (v : ℕ → ℝ) (n : ℕ) (hn : 0 < n) :
    ∑ i ∈ range n, (v i - (∑ j ∈ range n, v j) / n) ^ 2
      = (∑ i ∈ range n, (v i) ^ 2) - (∑ j ∈ range n, v j) ^ 2 / n := by
  have hn' : (n : ℝ) ≠ 0 := by exact_mod_cast hn.ne'
  set S := ∑ j ∈ range n, v j with hS
  have : ∀ i, (v i - S / n) ^ 2 = (v i) ^ 2 - 2 * (S / n) * v i + (S / n) ^ 2 := by intro i; ring
  simp_rw [this]
  rw [Finset.sum_add_distrib, Finset.sum_sub_distrib, ← Finset.mul_sum, ← hS]
  simp only [Finset.sum_const, Finset.card_range, nsmul_eq_mul]
  field_simp
  ring

/-- exponential smoothing recurrence e (n+1) = (1-α) e n + α v n, e 0 = 0 has the closed form
    e n = Σ_{i<n} α (1-α)^(n-1-i) v i -/
theorem es_closed (v e : ℕ → ℝ) (α : ℝ) (h0 : e 0 = 0)
    (hs : ∀ n, e (n + 1) = (1 - α) * e n + α * v n) :
    ∀ n : ℕ, e n = ∑ i ∈ range n, α * (1 - α) ^ (n - 1 - i) * v i := by
  intro n
  induction n with
  | zero => simp [h0]
  | succ k ih =>
    rw [hs k, ih, Finset.sum_range_succ, Finset.mul_sum]
    congr 1
    · apply Finset.sum_congr rfl
      intro i hi
      have hik : i < k := Finset.mem_range.mp hi
      have : k + 1 - 1 - i = (k - 1 - i) + 1 := by omega
      rw [this, pow_succ]
      ring
    · simp

/-- geometric survival: r (n+1) = r n * (1 - p/k), r t = r0  ⇒  r (t+m) = r0 * (1 - p/k)^m -/
theorem geometric_survival (r : ℕ → ℝ) (p k r0 : ℝ) (t : ℕ) (ht : r t = r0)
    (hs : ∀ n, t ≤ n → r (n + 1) = r n * (1 - p / k)) :
    ∀ m : ℕ, r (t + m) = r0 * (1 - p / k) ^ m := by
  intro m
  induction m with
  | zero => simp [ht]
  | succ j ih =>
    have : t + (j + 1) = (t + j) + 1 := by omega
    rw [this, hs (t + j) (by omega), ih, pow_succ]
    ring

/-- linearity of the common tracker step: a convex/affine step with a gain that does not depend on the
    values is a linear operator (used for the SAGE efficiency induction) -/
theorem step_linear (g x y z vx vy vz a b : ℝ) (hz : z = a * x + b * y) (hv : vz = a * vx + b * vy) :
    z + g * (vz - z) = a * (x + g * (vx - x)) + b * (y + g * (vy - y)) := by
  subst hz; subst hv; ring
