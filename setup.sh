#!/bin/sh
# Build the overlay interpreter /verif/.venv (offline, idempotent).
#  - python 3.12 of /venv (so the repository's own dependencies import: numpy, river, sklearn, torch)
#  - plus z3-solver, cvc5, hypothesis, jsonschema, crosshair, deal, icontract from the offline wheelhouse
# One interpreter then runs VC generation, the solvers and native replay against /repo.
set -e
HERE="$(cd "$(dirname "$0")" && pwd)"
VENV="$HERE/.venv"
STAMP="$VENV/.ok"
if [ -f "$STAMP" ] && "$VENV/bin/python" -c "import z3, cvc5, numpy, river, jsonschema" >/dev/null 2>&1; then
    exit 0
fi
rm -rf "$VENV"
/venv/bin/python -m venv --without-pip "$VENV"
SP="$VENV/lib/python3.12/site-packages"
PIP_NO_INDEX=1 /venv/bin/python -m pip install --quiet --no-index --find-links /opt/veriftools/wheels \
    --target "$SP" z3-solver cvc5 hypothesis jsonschema crosshair-tool deal icontract >/dev/null 2>&1 || \
PIP_NO_INDEX=1 /venv/bin/python -m pip install --quiet --no-index --find-links /opt/veriftools/wheels \
    --target "$SP" z3-solver cvc5 hypothesis jsonschema
echo "import site; site.addsitedir('/venv/lib/python3.12/site-packages')" > "$SP/zz_repo_deps.pth"
"$VENV/bin/python" -c "import z3, cvc5, numpy, river, jsonschema; print('venv ok', z3.get_version_string())"
touch "$STAMP"
