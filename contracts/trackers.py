"""Contracts for ixai/utils/tracker: Tracker (base), WelfordTracker, ExponentialSmoothingTracker.

One record type `Tracker` models both concrete trackers (ghost `kind`: 0 = Welford, 1 = exponential
smoothing), because explainers hold "a tracker" whose kind is fixed at construction.  Ghost state:
the history sums S1 = sum v_i, S2 = sum v_i^2, lo/hi = min/max of the inputs, lo0/hi0 = min/max of
zero and the inputs, E = value of the reference recursion ES(h ++ [v]) = (1-alpha) ES(h) + alpha v.
The closed forms (arithmetic mean, population variance, sum alpha(1-alpha)^(n-i) v_i) are tied to
these recurrences in Lean (lemmas/Lemmas.lean: welford_mean_closed, var_identity, es_closed).
"""
import z3
from fractions import Fraction
from pyvc.spec import *

F = 'ixai/utils/tracker/'

cls('Tracker', file=F + 'base.py',
    fields={'N': TInt, 'tracked_value': TNum, 'sum_squares': TNum, 'alpha': TNum},
    optional=['sum_squares', 'alpha'], opaque_inv=True,
    ghost={'kind': TInt, 'S1': TNum, 'S2': TNum, 'lo': TNum, 'hi': TNum, 'lo0': TNum, 'hi0': TNum, 'E': TNum},
    invariant={
        'N_nonneg': lambda s: s.N >= 0,
        'kind01': lambda s: lor(s.kind == 0, s.kind == 1),
        'w_mean': lambda s: implies(s.kind == 0, R(s.N) * s.tracked_value == s.S1),
        'w_m2': lambda s: implies(s.kind == 0, R(s.N) * s.sum_squares == R(s.N) * s.S2 - s.S1 * s.S1),
        'w_m2_nonneg': lambda s: implies(s.kind == 0, s.sum_squares >= 0),
        'w_zero': lambda s: implies(s.N == 0, land(s.tracked_value == 0, s.S1 == 0, s.S2 == 0, s.lo0 == 0, s.hi0 == 0,
                                                    implies(s.kind == 0, s.sum_squares == 0))),
        'w_bounds': lambda s: implies(land(s.kind == 0, s.N >= 1), land(s.lo <= s.tracked_value,
                                                                         s.tracked_value <= s.hi)),
        'lohi': lambda s: implies(s.N >= 1, land(s.lo0 <= s.lo, s.hi <= s.hi0, s.lo <= s.hi)),
        'hull0': lambda s: land(s.lo0 <= 0, 0 <= s.hi0),
        'es_alpha': lambda s: implies(s.kind == 1, land(0 <= s.alpha, s.alpha <= 1)),
        'es_val': lambda s: implies(s.kind == 1, s.tracked_value == s.E),
        'hull': lambda s: land(s.lo0 <= s.tracked_value, s.tracked_value <= s.hi0),
    })


GAINF = z3.Function('tracker_gain', z3.IntSort(), z3.RealSort(), z3.IntSort(), z3.RealSort())


def _gain(s):
    """the gain of the next step: a function of (kind, alpha, N) only - named, so that trackers in lock-step have
    syntactically congruent gains; its value is given by gain_def()"""
    if isinstance(s.N, int):
        return Fraction(1, s.N + 1) if s.kind == 0 else s.alpha      # concrete evaluation during replay
    return GAINF(s.kind, s.alpha, s.N)


def gain_def():
    """definition: Welford 1/(N+1), exponential smoothing alpha"""
    from pyvc import sym
    k, n = z3.Ints('gd!k gd!n')
    a = z3.Real('gd!a')
    return [sym.forall([k, a, n], GAINF(k, a, n) == z3.If(k == 0, 1 / z3.ToReal(n + 1), a), [GAINF(k, a, n)])]


def _ghost_step(c):
    o, v = c.old, c.a.value_i
    v = R(v)
    return {
        'S1': o.S1 + v, 'S2': o.S2 + v * v,
        'lo': ite(o.N == 0, v, ite(v < o.lo, v, o.lo)), 'hi': ite(o.N == 0, v, ite(v > o.hi, v, o.hi)),
        'lo0': ite(v < o.lo0, v, o.lo0), 'hi0': ite(v > o.hi0, v, o.hi0),
        'E': (1 - o.alpha) * o.E + o.alpha * v,
    }


_update_ensures = {
    'count': lambda c: c.new.N == c.old.N + 1,
    # the common linear form: value' = value + g * (v - value), g a function of (kind, alpha, N) only
    'lin': lambda c: c.new.tracked_value == c.old.tracked_value + _gain(c.old) * (R(c.a.value_i) - c.old.tracked_value),
    'kind_const': lambda c: land(c.new.kind == c.old.kind, c.new.alpha == c.old.alpha),
}

_UPD = None


def UPD(t0, v, t1):
    """opaque `t1 is t0 after update(v)`: stands for the whole postcondition of Tracker.update (the ensures clauses,
    the ghost step and the invariant of t1); assumed at call sites together with the revealed clauses, so callers that
    only carry the relation around (MultiValueTracker) need no arithmetic"""
    global _UPD
    if _UPD is None:
        _UPD = z3.Function('tracker_upd', t0.sort(), z3.RealSort(), t1.sort(), z3.BoolSort())
    return _UPD(t0, v, t1)


def reveal_upd(t0term, v, t1term):
    """definition of UPD at one instance"""
    from pyvc.sym import SObj
    t0, t1 = ObjView(SObj('Tracker', term=t0term)), ObjView(SObj('Tracker', term=t1term))
    c = Ctx(old=t0, new=t1, a=type('A', (), {'value_i': v})())
    facts = [f(c) for f in _update_ensures.values()]
    for g, term in _ghost_step(c).items():
        facts.append(getattr(t1, g) == term)
    facts += [f(t1) for f in CLASSES['Tracker'].all_invariants().values()]
    facts.append(INV('Tracker', t1term))
    return UPD(t0term, v, t1term) == land(*facts)


def reveal_upd_parts(parts):
    """selected consequences of the definition of UPD, quantified over tracker terms (pattern: the UPD atom):
    'count' (N' = N+1), 'family' (kind/alpha unchanged), 'lo0' (lo0' = min(lo0, v)), 'lin' (the linear step),
    'inv' (the opaque invariant of the result)"""
    from pyvc.sym import SObj
    from pyvc import sym
    T = TObj('Tracker')
    t0 = z3.Const('rp!t0', T.sort())
    t1 = z3.Const('rp!t1', T.sort())
    v = z3.Real('rp!v')
    a, b = ObjView(SObj('Tracker', term=t0)), ObjView(SObj('Tracker', term=t1))
    facts = []
    if 'count' in parts:
        facts.append(b.N == a.N + 1)
    if 'family' in parts:
        facts += [b.kind == a.kind, b.alpha == a.alpha]
    if 'lo0' in parts:
        facts.append(b.lo0 == ite(v < a.lo0, v, a.lo0))
    if 'lin' in parts:
        facts.append(b.tracked_value == a.tracked_value + _gain(a) * (v - a.tracked_value))
    if 'inv' in parts:
        facts.append(INV('Tracker', t1))
    return [sym.forall([t0, v, t1], z3.Implies(UPD(t0, v, t1), land(*facts)), [UPD(t0, v, t1)])]


# interface contract used at call sites where the concrete tracker is not known
fn('Tracker.update', params={'value_i': TNum}, self_cls='Tracker', ensures=_update_ensures,
   ghost_update=_ghost_step, modifies=['N', 'tracked_value', 'sum_squares'], returns_self=True, assume_only=True,
   opaque=lambda c: UPD(c.old.term, R(c.a.value_i), c.new.term),
   notes='interface; proved for WelfordTracker.update and ExponentialSmoothingTracker.update (implements=)')

fn('Tracker.__init__', F + 'base.py', kind='init', self_cls='Tracker', inline=True)

fn('Tracker.__call__', F + 'base.py', self_cls='Tracker', pure=True, ret=TNum, entry_inv=True,
   ensures={'value': lambda c: c.res == c.old.tracked_value})
fn('Tracker.get', F + 'base.py', self_cls='Tracker', pure=True, ret=TNum,
   ensures={'value': lambda c: c.res == c.old.tracked_value})
fn('Tracker.get_normalized', F + 'base.py', self_cls='Tracker', pure=True, ret=TNum,
   ensures={'value': lambda c: c.res == c.old.tracked_value})

# ---- WelfordTracker ------------------------------------------------------------------------------
_zero_ghost = lambda c: {'S1': 0.0, 'S2': 0.0, 'lo': 0.0, 'hi': 0.0, 'lo0': 0.0, 'hi0': 0.0, 'E': 0.0}

fn('WelfordTracker.__init__', F + 'welford.py', kind='init', self_cls='Tracker',
   ghost_update=lambda c: dict(_zero_ghost(c), kind=0, alpha=0.0),
   ensures={'fresh': lambda c: land(c.new.N == 0, c.new.tracked_value == 0, c.new.kind == 0)})

fn('WelfordTracker.update', F + 'welford.py', params={'value_i': TNum}, self_cls='Tracker',
   entry_lemmas=lambda c: gain_def(),
   requires={'is_welford': lambda c: c.old.kind == 0},
   ensures={
       # mean' = (S1 + v) / (N + 1): the arithmetic mean of all values seen
       'mean': lambda c: R(c.new.N) * c.new.tracked_value == c.old.S1 + R(c.a.value_i),
       # N' * M2' = N' * (S2 + v^2) - (S1 + v)^2: sum of squared deviations from the mean
       'm2': lambda c: R(c.new.N) * c.new.sum_squares ==
                       R(c.new.N) * (c.old.S2 + R(c.a.value_i) * R(c.a.value_i)) - (c.old.S1 + R(c.a.value_i)) ** 2,
   },
   implements='Tracker.update', ghost_update=_ghost_step, modifies=['N', 'tracked_value', 'sum_squares'],
   returns_self=True)

fn('Tracker.var', F + 'welford.py', src_cls='WelfordTracker', kind='property', self_cls='Tracker', pure=True, ret=TNum,
   requires={'is_welford': lambda c: c.old.kind == 0},
   ensures={
       # population variance: S2/N - (S1/N)^2 for N >= 1, 0 before the first value
       'var_def': lambda c: implies(c.old.N >= 1, c.res * R(c.old.N) * R(c.old.N) ==
                                    R(c.old.N) * c.old.S2 - c.old.S1 * c.old.S1),
       'var_zero': lambda c: implies(c.old.N == 0, c.res == 0),
       'var_nonneg': lambda c: c.res >= 0,
   })
fn('Tracker.std', F + 'welford.py', src_cls='WelfordTracker', kind='property', self_cls='Tracker', pure=True, ret=TNum,
   requires={'is_welford': lambda c: c.old.kind == 0},
   ensures={
       'std_nonneg': lambda c: c.res >= 0,
       'std_sq': lambda c: implies(c.old.N >= 1, c.res * c.res * R(c.old.N) * R(c.old.N) ==
                                   R(c.old.N) * c.old.S2 - c.old.S1 * c.old.S1),
   })
fn('Tracker.mean', F + 'welford.py', src_cls='WelfordTracker', kind='property', self_cls='Tracker', pure=True, ret=TNum,
   requires={'is_welford': lambda c: c.old.kind == 0},
   ensures={'mean_def': lambda c: land(c.res == c.old.tracked_value, R(c.old.N) * c.res == c.old.S1)})

# ---- ExponentialSmoothingTracker -----------------------------------------------------------------------
fn('ExponentialSmoothingTracker.__init__', F + 'exponential_smoothing.py', kind='init', self_cls='Tracker',
   params={'alpha': TNum},
   ghost_update=lambda c: dict(_zero_ghost(c), kind=1, sum_squares=0.0),
   raises={'AssertionError': {'when': lambda c: lnot(land(0 <= c.a.alpha, c.a.alpha <= 1))}},
   ensures={'fresh': lambda c: land(c.new.N == 0, c.new.tracked_value == 0, c.new.kind == 1,
                                    c.new.alpha == c.a.alpha),
            'alpha_ok': lambda c: land(0 <= c.a.alpha, c.a.alpha <= 1)})

fn('ExponentialSmoothingTracker.update', F + 'exponential_smoothing.py', params={'value_i': TNum}, self_cls='Tracker',
   entry_lemmas=lambda c: gain_def(),
   requires={'is_es': lambda c: c.old.kind == 1},
   ensures={
       # the reference recursion ES(h ++ [v]) = (1 - alpha) ES(h) + alpha v
       'es_step': lambda c: c.new.tracked_value == (1 - c.old.alpha) * c.old.E + c.old.alpha * R(c.a.value_i),
   },
   implements='Tracker.update', ghost_update=_ghost_step, modifies=['N', 'tracked_value'], returns_self=True)
