"""Contracts for ixai/storage/tree_storage.py (TreeStorage) and ixai/imputer/tree_imputer.py (TreeImputer).

river's Hoeffding trees and the two path functions of tree_storage.py (a recursive generator and a recursion over river
node objects: outside the engine's subset) are ASSUMED contracts: the tree is an opaque object, PATH(root, x) is the id
of the leaf x is routed to, and it occurs in get_all_tree_paths(root).
"""
import z3
from pyvc.spec import *
from pyvc.sym import KeyS, ValS
from pyvc import sym
from pyvc.pylib import InstT, PredT, MODEL
import contracts.storage as st
import contracts.imputer as im

F = 'ixai/storage/tree_storage.py'
FI = 'ixai/imputer/tree_imputer.py'
KeyList = TList(TKey)
XList = TList(InstT)
PredList = TList(PredT)
StorageT = TObj('Storage')
ResDict = TDict(TKey, StorageT)             # leaf id -> reservoir
ResByFeature = TDict(TKey, ResDict)

PATH = z3.Function('leaf_path', ValS, InstT.sort(), KeyS)      # routed leaf id (path string) of an instance

cls('RiverTree', fields={'state': TVal, '_root': TVal}, invariant={})
fn('RiverTree.learn_one', None, self_cls='RiverTree', params={'x': InstT, 'y': TVal}, assume_only=True,
   modifies=['state', '_root'], ensures={'args': lambda c: c.a_new.x.t == c.a.x.t},
   notes='assumed: may restructure the tree arbitrarily')
fn('RiverTree.predict_one', None, self_cls='RiverTree', params={'x': InstT}, assume_only=True, pure=True, ret=TVal, ensures={})
cls('RollingMetric', fields={'state': TVal}, invariant={})
fn('RollingMetric.update', None, self_cls='RollingMetric', params={'y_true': TVal, 'y_pred': TVal}, assume_only=True,
   modifies=['state'], ensures={})

fn('get_all_tree_paths', None, kind='function', params={'node': TVal}, assume_only=True, pure=True, ret=KeyList,
   ensures={
       # every routed leaf id is among the current tree's leaf ids
       'contains_routed_paths': lambda c: sym.forall([z3.Const('gp!x', InstT.sort())], exists_int(
           lambda i: land(0 <= i, i < c.res.n, c.res.arr[i] == PATH(c.a.node, z3.Const('gp!x', InstT.sort())))),
           [PATH(c.a.node, z3.Const('gp!x', InstT.sort()))]),
   }, notes='assumed (recursion over river nodes)')


def in_names(names, k):
    return exists_int(lambda i: land(0 <= i, i < names.n, names.arr[i] == k))


def reservoir_ok(s, R):
    """a leaf reservoir: an always-insert geometric reservoir of the configured size, well-formed"""
    r = ObjView(sym.SObj('Storage', term=R))
    return land(INV('Storage', R), r.kind == 3, r.size == s._leaf_reservoir_length, r.constant_probability == 1,
                lnot(r.store_targets))


cls('TreeStorage', file=F,
    fields={'feature_names': KeyList, 'cat_feature_names': KeyList, 'num_feature_names': KeyList,
            '_leaf_reservoir_length': TInt, '_seen_samples': TInt, '_storage_x': TDict(TKey, TObj('RiverTree')),
            'performances': TDict(TKey, TObj('RollingMetric')), 'data_reservoirs': ResByFeature},
    invariant={
        'counts': lambda s: land(s._seen_samples >= 0, s._leaf_reservoir_length >= 1),
        'per_feature': lambda s: forall_key(lambda f: implies(in_names(s.feature_names, f), land(
            s.data_reservoirs.dom[f], s._storage_x.dom[f], s.performances.dom[f])), pats=lambda f: [s.data_reservoirs.dom[f]]),
        # every leaf reservoir is GeometricReservoirStorage(size = leaf_reservoir_length, p = 1.0)
        'reservoirs': lambda s: forall_key(lambda f: forall_key(lambda l: implies(
            land(s.data_reservoirs.dom[f], ResDict.dom(s.data_reservoirs.val[f])[l]),
            reservoir_ok(s, ResDict.val(s.data_reservoirs.val[f])[l])))),
    })

fn('TreeStorage.__len__', F, self_cls='TreeStorage', pure=True, ret=TInt,
   ensures={'number_of_updates': lambda c: c.res == c.old._seen_samples})
fn('TreeStorage.get_path_through_tree', None, kind='static', self_cls=None, params={'node': TVal, 'x_i': InstT}, assume_only=True,
   pure=True, ret=TKey, ensures={'is_routed_leaf': lambda c: c.res == PATH(c.a.node, c.a.x_i.t)},
   notes='assumed (recursive generator over river nodes)')

fn('TreeStorage.__call__', F, self_cls='TreeStorage', params={'feature_name': TKey}, pure=True,
   ret=TTuple(TObj('RiverTree'), TKey),
   requires={'trees_exist': lambda c: forall_key(lambda f: implies(lor(in_names(c.old.cat_feature_names, f),
                                                                       in_names(c.old.num_feature_names, f)), c.old._storage_x.dom[f]))},
   raises={'ValueError': {'when': lambda c: land(lnot(in_names(c.old.cat_feature_names, c.a.feature_name)),
                                                 lnot(in_names(c.old.num_feature_names, c.a.feature_name)))}},
   ensures={'model_and_type': lambda c: land(
       c.res[0].term == c.old._storage_x.val[c.a.feature_name],
       c.res[1] == ite(in_names(c.old.cat_feature_names, c.a.feature_name), str_key('cat'), str_key('num')))})


def _res(sv, f):
    return sv.data_reservoirs.val[f]


fn('TreeStorage._delete_outdated_reservoirs', F, self_cls='TreeStorage', params={'feature_name': TKey, 'root_node': TVal},
   requires={'known_feature': lambda c: c.old.data_reservoirs.dom[c.a.feature_name]},
   modifies=['data_reservoirs'],
   ensures={
       # afterwards the feature's reservoirs are exactly the old ones whose leaf id is still a leaf of the tree
       'keys_are_current_leaves': lambda c: forall_key(lambda l: ResDict.dom(_res(c.new, c.a.feature_name))[l] == land(
           ResDict.dom(_res(c.old, c.a.feature_name))[l],
           exists_int(lambda i: land(0 <= i, i < _leaves(c).n, _leaves(c).arr[i] == l))),
           pats=lambda l: [ResDict.dom(_res(c.new, c.a.feature_name))[l]]),
       # a reservoir whose key is the routed leaf of some instance survives the pruning (its key is a current leaf)
       'routed_leaves_survive': lambda c: sym.forall([z3.Const('rs!x', InstT.sort())], implies(
           ResDict.dom(_res(c.old, c.a.feature_name))[PATH(c.a.root_node, z3.Const('rs!x', InstT.sort()))],
           ResDict.dom(_res(c.new, c.a.feature_name))[PATH(c.a.root_node, z3.Const('rs!x', InstT.sort()))]),
           [PATH(c.a.root_node, z3.Const('rs!x', InstT.sort()))]),
       'kept_untouched': lambda c: forall_key(lambda l: implies(ResDict.dom(_res(c.new, c.a.feature_name))[l],
                                                                ResDict.val(_res(c.new, c.a.feature_name))[l] ==
                                                                ResDict.val(_res(c.old, c.a.feature_name))[l])),
       'other_features_untouched': lambda c: land(c.new.data_reservoirs.dom == c.old.data_reservoirs.dom, forall_key(
           lambda g: implies(g != c.a.feature_name, c.new.data_reservoirs.val[g] == c.old.data_reservoirs.val[g]))),
   },
   loops=[loop(inv={
       'dom': lambda l: forall_key(lambda k: ResDict.dom(_res(l.self, l.a.feature_name))[k] == land(
           ResDict.dom(_res(l.entry_self, l.a.feature_name))[k],
           lnot(land(l.done[k], lnot(exists_int(lambda i: land(0 <= i, i < l.v.all_leafs.n, l.v.all_leafs.arr[i] == k)))))),
           pats=lambda k: [ResDict.dom(_res(l.self, l.a.feature_name))[k]]),
       'vals': lambda l: forall_key(lambda k: implies(ResDict.dom(_res(l.self, l.a.feature_name))[k],
                                                      ResDict.val(_res(l.self, l.a.feature_name))[k] ==
                                                      ResDict.val(_res(l.entry_self, l.a.feature_name))[k])),
       'others': lambda l: land(l.self.data_reservoirs.dom == l.entry_self.data_reservoirs.dom, forall_key(
           lambda g: implies(g != l.a.feature_name, l.self.data_reservoirs.val[g] == l.entry_self.data_reservoirs.val[g]))),
       'frame': lambda l: l.v.all_leafs.t == l.entry.all_leafs.t,
   })])


def _leaves(c):
    return pure_call('get_all_tree_paths', None, c.a.root_node)


def _routed(c):
    return PATH(ObjView(sym.SObj('RiverTree', term=c.old._storage_x.val[c.a.feature_name]))._root, c.a.x_i.t)


fn('TreeStorage._update_data_reservoirs', F, self_cls='TreeStorage', params={'feature_name': TKey, 'x_i': InstT, 'x': InstT},
   requires={'known_feature': lambda c: land(c.old.data_reservoirs.dom[c.a.feature_name], c.old._storage_x.dom[c.a.feature_name])},
   modifies=['data_reservoirs'],
   callee_variants={'Storage.update': 'GeometricReservoirStorage.update'},
   ensures={
       # the COMPLETE observation x is in the reservoir of the leaf x_i is routed to
       'newest_in_routed_leaf': lambda c: land(
           ResDict.dom(_res(c.new, c.a.feature_name))[_routed(c)],
           exists_int(lambda i: land(0 <= i, i < _R(c).n, _R(c).arr[i] == c.a.x.t))),
       'other_features_untouched': lambda c: land(c.new.data_reservoirs.dom == c.old.data_reservoirs.dom, forall_key(
           lambda g: implies(g != c.a.feature_name, c.new.data_reservoirs.val[g] == c.old.data_reservoirs.val[g]))),
       'args_unchanged': lambda c: land(c.a_new.x.t == c.a.x.t, c.a_new.x_i.t == c.a.x_i.t),
   })


def _R(c):
    R = ResDict.val(_res(c.new, c.a.feature_name))[_routed(c)]
    return ObjView(sym.SObj('Storage', term=R))._storage_x


# ---- TreeImputer -----------------------------------------------------------------------------------------------------
cls('TreeImputerObj', file=FI,
    fields={'model_function': TFnRole('model'), 'storage_object': TObj('TreeStorage'), 'direct_predict_numeric': TBool,
            'use_storage': TBool}, invariant={})

fn('TreeImputerObj._sample', None, self_cls='TreeImputerObj', params={'feature_name': TKey, 'x_i': InstT, 'n_samples': TInt},
   assume_only=True, modifies=[], ret=TVal, ensures={'args': lambda c: c.a_new.x_i.t == c.a.x_i.t},
   notes="assumed: the tree's own sample (class drawn from predict_proba_one / normal around the leaf statistics); touches river internals")

def _points_have(c_storage, f_pred):
    """every point held in a leaf reservoir of a feature f with f_pred(f) has that feature (reservoirs hold COMPLETE points)"""
    so = c_storage
    return forall_key(lambda f: forall_key(lambda l: implies(
        land(f_pred(f), so.data_reservoirs.dom[f], ResDict.dom(so.data_reservoirs.val[f])[l]),
        forall_int(lambda i: implies(
            land(0 <= i, i < ObjView(sym.SObj('Storage', term=ResDict.val(so.data_reservoirs.val[f])[l]))._storage_x.n),
            InstT.dom(ObjView(sym.SObj('Storage', term=ResDict.val(so.data_reservoirs.val[f])[l]))._storage_x.arr[i])[f])))))


def _routed_leaf_imp(c):
    so = c.old.storage_object
    return PATH(ObjView(sym.SObj('RiverTree', term=so._storage_x.val[c.a.feature_name]))._root, c.a.x_i.t)


def _sample_calls(c):
    return [e for e in c.events if e['kind'] == 'call' and e['callee'] == 'TreeImputerObj._sample']


def _from_reservoir(c):
    so = c.old.storage_object
    leaf = _routed_leaf_imp(c)
    rd = so.data_reservoirs.val[c.a.feature_name]
    R = ObjView(sym.SObj('Storage', term=ResDict.val(rd)[leaf]))._storage_x
    return implies(ResDict.dom(rd)[leaf], land(
        len(_sample_calls(c)) == 0,
        exists_int(lambda i: land(0 <= i, i < R.n, c.res == InstT.val(R.arr[i])[c.a.feature_name]))))


fn('TreeImputerObj._sample_from_storages', FI, src_cls='TreeImputer', self_cls='TreeImputerObj',
   params={'feature_name': TKey, 'x_i': InstT, 'n_samples': TInt}, modifies=[], ret=TVal,
   requires={'known_feature': lambda c: land(c.old.storage_object.data_reservoirs.dom[c.a.feature_name],
                                             c.old.storage_object._storage_x.dom[c.a.feature_name],
                                             lor(in_names(c.old.storage_object.cat_feature_names, c.a.feature_name),
                                                 in_names(c.old.storage_object.num_feature_names, c.a.feature_name))),
             'trees_exist': lambda c: forall_key(lambda f: implies(lor(in_names(c.old.storage_object.cat_feature_names, f),
                                                                       in_names(c.old.storage_object.num_feature_names, f)),
                                                                   c.old.storage_object._storage_x.dom[f])),
             # every existing leaf reservoir holds at least one point (TreeStorage fills a reservoir right after creating it)
             'reservoirs_nonempty': lambda c: forall_key(lambda f: forall_key(lambda l: implies(
                 land(c.old.storage_object.data_reservoirs.dom[f], ResDict.dom(c.old.storage_object.data_reservoirs.val[f])[l]),
                 ObjView(sym.SObj('Storage', term=ResDict.val(c.old.storage_object.data_reservoirs.val[f])[l]))._storage_x.n >= 1))),
             # ... of complete data points
             'points_complete': lambda c: _points_have(c.old.storage_object, lambda f: f == c.a.feature_name)},
   body_ensures={
       # the index into the leaf reservoir is drawn over its full range
       'full_range_index': lambda c: land(*[land(e['lo'] == 0) for e in c.events if e.get('uniform_int')]),
   },
   ensures={'args': lambda c: c.a_new.x_i.t == c.a.x_i.t,
            # the routed leaf has a reservoir => the value is that feature's value in one of ITS points, the tree's own
            # sample is not used
            'from_reservoir': _from_reservoir})

for variant, fst in (('', TSet(TKey)), ('#list', KeyList)):
    fn('TreeImputer.impute' + variant, FI, src_name='impute', self_cls='TreeImputerObj',
       params={'feature_subset': fst, 'x_i': InstT, 'n_samples': TInt},
       requires={'n_nonneg': lambda c: c.a.n_samples >= 0,
                 'reservoirs_nonempty': lambda c: forall_key(lambda f: forall_key(lambda l: implies(
                     land(c.old.storage_object.data_reservoirs.dom[f], ResDict.dom(c.old.storage_object.data_reservoirs.val[f])[l]),
                     ObjView(sym.SObj('Storage', term=ResDict.val(c.old.storage_object.data_reservoirs.val[f])[l]))._storage_x.n >= 1))),
                 'points_complete': lambda c: _points_have(c.old.storage_object, lambda f: im.in_subset(c.a.feature_subset, f)),
                 'known_features': lambda c: forall_key(lambda f: implies(im.in_subset(c.a.feature_subset, f), land(
                     c.old.storage_object.data_reservoirs.dom[f], c.old.storage_object._storage_x.dom[f],
                     lor(in_names(c.old.storage_object.cat_feature_names, f), in_names(c.old.storage_object.num_feature_names, f))))),
                 'trees_exist': lambda c: forall_key(lambda f: implies(lor(in_names(c.old.storage_object.cat_feature_names, f),
                                                                           in_names(c.old.storage_object.num_feature_names, f)),
                                                                       c.old.storage_object._storage_x.dom[f]))},
       ret=PredList, modifies=[], local_types={'predictions': PredList, 'sampled_values': InstT},
       ghost_out={'zs': (XList, lambda c: c.run.last_loop.g.zs.t if c.run.last_loop is not None else XList.empty())},
       ensures={
           'count': lambda c: c.res.n == c.a.n_samples,
           # only the requested features differ from the explained instance
           'agree_outside': lambda c: im._zs_ok(c, lambda z: im.agrees_outside(z, c.a.x_i.t, c.a.feature_subset)),
           'frame_args': lambda c: land(c.a_new.x_i.t == c.a.x_i.t, c.a_new.feature_subset.t == c.a.feature_subset.t),
           'storage_unchanged': lambda c: c.new.storage_object.term == c.old.storage_object.term,
       },
       loops=[
           loop(ghosts={'zs': (XList, lambda l: XList.empty(),
                               lambda l: XList.mk(l.g.zs.n + 1, z3.Store(l.g.zs.arr, l.g.zs.n,
                                                                         [e for e in l.body_events if e['kind'] == 'model'][-1]['x'])))},
                inv={
                    'lens': lambda l: land(l.v.predictions.n == l.i, l.g.zs.n == l.i),
                    'preds': lambda l: forall_int(lambda j: implies(land(0 <= j, j < l.i), land(
                        l.v.predictions.arr[j] == MODEL(l.self.model_function, l.g.zs.arr[j]),
                        im.agrees_outside(l.g.zs.arr[j], l.a.x_i.t, l.a.feature_subset))), pats=lambda j: [l.v.predictions.arr[j]]),
                    'frame': lambda l: land(l.v.x_i.t == l.a.x_i.t, l.v.feature_subset.t == l.a.feature_subset.t,
                                            l.self.storage_object.term == l.entry_self.storage_object.term),
                }),
           loop(inv={
               'keys': (lambda l: forall_key(lambda k: implies(l.v.sampled_values.dom[k], im.in_subset(l.a.feature_subset, k)),
                                             pats=lambda k: [l.v.sampled_values.dom[k]])),
               'frame': lambda l: land(l.v.x_i.t == l.a.x_i.t, l.v.feature_subset.t == l.a.feature_subset.t,
                                       l.self.storage_object.term == l.entry_self.storage_object.term,
                                       l.v.predictions.t == l.entry.predictions.t),
           }),
       ])


# ---- TreeStorage.update ----------------------------------------------------------------------------------------------
def without(x, f):
    """the instance x without feature f (x_i = {**x}; x_i.pop(f))"""
    return InstT.mk(z3.Store(InstT.dom(x), f, False), z3.Store(InstT.val(x), f, InstT.v.default()))


def _tree_root(s, f):
    return ObjView(sym.SObj('RiverTree', term=s._storage_x.val[f]))._root


def has_newest(s, f, x):
    """feature f's reservoir of the leaf that x (without f) is routed to in f's CURRENT tree exists and contains the complete x"""
    leaf = PATH(_tree_root(s, f), without(x, f))
    R = ObjView(sym.SObj('Storage', term=ResDict.val(s.data_reservoirs.val[f])[leaf]))._storage_x
    return land(ResDict.dom(s.data_reservoirs.val[f])[leaf], exists_int(lambda i: land(0 <= i, i < R.n, R.arr[i] == x)))


fn('TreeStorage.update', F, self_cls='TreeStorage', params={'x': InstT, 'y': TVal},
   modifies=['_seen_samples', '_storage_x', 'performances', 'data_reservoirs'],
   ensures={
       'one_more_update': lambda c: c.new._seen_samples == c.old._seen_samples + 1,
       # for every stored feature present in x: the complete newest observation is in the reservoir of the leaf it is
       # routed to in that feature's tree as it is after learning from it
       'newest_in_routed_leaf': lambda c: forall_key(lambda f: implies(
           land(c.a.x.dom[f], in_names(c.old.feature_names, f)), has_newest(c.new, f, c.a.x.t))),
       'x_unchanged': lambda c: c.a_new.x.t == c.a.x.t,
       'config_unchanged': lambda c: c.new._leaf_reservoir_length == c.old._leaf_reservoir_length,
   },
   loops=[loop(inv={
       'newest': lambda l: forall_key(lambda f: implies(land(l.done[f], in_names(l.self.feature_names, f)),
                                                        has_newest(l.self, f, l.a.x.t))),
       'frame': lambda l: land(l.v.x.t == l.a.x.t, l.self._seen_samples == l.entry_self._seen_samples),
       'inv_per_feature': lambda l: CLASSES['TreeStorage'].invariant['per_feature'](l.self),
       'inv_reservoirs': lambda l: CLASSES['TreeStorage'].invariant['reservoirs'](l.self),
   })])
