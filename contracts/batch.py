"""Contracts for ixai/explainer/sage/batch.py (BatchSage) and interval.py (IntervalSage).

Record type `BatchExplainer` (ghost `kind`: 0 BatchSage, 1 IntervalSage).
"""
import z3
from pyvc.spec import *
from pyvc.sym import KeyS
from pyvc import lemmas, sym
from pyvc.pylib import InstT, PredT, MODEL, LOSS
import contracts.explainer as ex
import contracts.imputer as im
import contracts.storage as st

F = 'ixai/explainer/sage/'
PredList = TList(PredT)
NumDict = TDict(TKey, TNum)
KeyList = TList(TKey)
XList = TList(InstT)
YList = TList(TVal)
names_set = ex.names_set
MEANOUT = ex.MEANOUT


def _names_ok(names):
    return land(names.n >= 1, forall_int(lambda i: forall_int(
        lambda j: implies(land(0 <= i, i < j, j < names.n), names.arr[i] != names.arr[j]))))


cls('BatchExplainer', file=F + 'batch.py',
    fields={'feature_names': KeyList, 'n_inner_samples': TInt, '_model_function': TFnRole('model'),
            '_loss_function': TFnRole('loss'), '_storage': TObj('Storage'), '_imputer': TObj('Imputer'),
            'importance_values': NumDict, 'interval_length': TInt, 'seen_samples': TInt},
    optional=['interval_length', 'seen_samples'], ghost={'kind': TInt},
    invariant={
        'names': lambda s: _names_ok(s.feature_names),
        'n_inner': lambda s: s.n_inner_samples >= 1,
        'same_model': lambda s: s._imputer.model_function == s._model_function,
        'keys': lambda s: forall_key(lambda k: s.importance_values.dom[k] == names_set(s.feature_names)(k),
                                     pats=lambda k: [s.importance_values.dom[k]]),
        'interval': lambda s: implies(s.kind == 1, land(s.interval_length >= 1, s.seen_samples >= 0, s._storage.kind == 1)),
    })

_params = {'model_function': TFnRole('model'), 'feature_names': KeyList, 'loss_function': TFnRole('loss'),
           'n_inner_samples': TInt, 'storage': TOpt(TObj('Storage')), 'imputer': TOpt(TObj('Imputer'))}


def _given(c, name):
    return ex._given(c, name)


_init_req = {
    'names': lambda c: _names_ok(c.a.feature_names),
    'n_inner_pos': lambda c: c.a.n_inner_samples >= 1,
    'imputer_model': lambda c: (c.a.imputer.model_function == im.VALIDATE(c.a.model_function)) if _given(c, 'imputer') else True,
    'storage_inv': lambda c: INV('Storage', c.a.storage.term) if _given(c, 'storage') else True,
    'imputer_inv': lambda c: land(INV('Imputer', c.a.imputer.term), INV('Storage', c.a.imputer.storage_object.term))
    if _given(c, 'imputer') else True,
}


def _fresh(c):
    n = c.new
    return land(n.feature_names.t == c.a.feature_names.t, n.n_inner_samples == c.a.n_inner_samples,
                n._model_function == im.VALIDATE(c.a.model_function), n._loss_function == ex.VALIDATE_LOSS(c.a.loss_function),
                forall_key(lambda k: implies(n.importance_values.dom[k], n.importance_values.val[k] == 0)))


fn('BatchSage.__init__', F + 'batch.py', kind='init', self_cls='BatchExplainer', params=_params, requires=_init_req,
   ghost_update=lambda c: {'kind': 0}, ensures={'fresh_state': _fresh})

fn('IntervalSage.__init__', F + 'interval.py', kind='init', self_cls='BatchExplainer',
   params=dict(_params, interval_length=TInt, storage_length=TInt),
   requires=dict(_init_req, lengths=lambda c: land(c.a.interval_length >= 1, c.a.storage_length >= 1),
                 interval_storage=lambda c: (c.a.storage.kind == 1) if _given(c, 'storage') else True),
   ghost_update=lambda c: {'kind': 1},
   ensures={'fresh_state': _fresh,
            'cfg': lambda c: land(c.new.interval_length == c.a.interval_length, c.new.seen_samples == 0,
                                  c.new._storage.kind == 1,
                                  True if _given(c, 'storage') else c.new._storage.size == c.a.storage_length)})

fn('BatchExplainer.update_storage', F + 'batch.py', src_cls='BatchSage', self_cls='BatchExplainer',
   params={'x_i': InstT, 'y_i': TVal}, modifies=['_storage'], raises={'CallbackError': {'post': {}}},
   ensures={'args': lambda c: c.a_new.x_i.t == c.a.x_i.t})

# ---- explain_many --------------------------------------------------------------------------------------------------
BSUM = z3.Function('batch_loss_gap_sum', sym.FnS, sym.FnS, XList.sort(), YList.sort(), PredT.sort(), z3.IntSort(),
                   z3.RealSort())


def bsum_axioms(lossf, modelf, xs=None, ys=None, mp=None):
    """spec function: BSUM(m) = sum_{i<m} ( L(y_i, mp) - L(y_i, M(x_i)) )   (for every data set and baseline mp)"""
    m = z3.Int('bs!m')
    xs = z3.Const('bs!xs', XList.sort())
    ys = z3.Const('bs!ys', YList.sort())
    mp = z3.Const('bs!mp', PredT.sort())
    f = lambda k: BSUM(lossf, modelf, xs, ys, mp, k)
    return [sym.forall([xs, ys, mp], f(z3.IntVal(0)) == 0, [f(z3.IntVal(0))]),
            sym.forall([xs, ys, mp, m], z3.Implies(m >= 0, f(m + 1) == f(m) + LOSS(lossf, YList.arr(ys)[m], mp) -
                                                   LOSS(lossf, YList.arr(ys)[m], MODEL(modelf, XList.arr(xs)[m]))), [f(m + 1)])]


def _mp(c_or_l, a):
    """the data set's mean prediction: mean of the model's outputs on x_data"""
    return c_or_l.run.env['marginal_prediction'].t if False else None


# ---- per-feature chain contributions (C05: "each value is the average over observations of that feature's chain contribution")
DictList = TList(NumDict)
CCOL = z3.Function('contribution_column', z3.ArraySort(z3.IntSort(), NumDict.sort()), KeyS, z3.ArraySort(z3.IntSort(), z3.RealSort()))


def ccol_axioms():
    """spec function: CCOL(CS, f)[i] = CS[i][f] - feature f's chain contribution in the i-th explained observation"""
    a = z3.Const('cc!a', z3.ArraySort(z3.IntSort(), NumDict.sort()))
    k = z3.Const('cc!k', KeyS)
    i = z3.Int('cc!i')
    return [sym.forall([a, k, i], CCOL(a, k)[i] == NumDict.val(a[i])[k], [CCOL(a, k)[i]])] + \
        lemmas.ssum_succ_axiom() + lemmas.ssum_congr_axiom()


def _chain_ghosts():
    """inner (chain) loop: LP = loss before the current step; MC[f] = loss before - loss after f joined the coalition"""
    return {'LP': (TNum, lambda l: l.v.loss_previous, lambda l: l.v.loss_previous),
            'MC': (NumDict, lambda l: NumDict.empty(),
                   lambda l: NumDict.mk(z3.Store(l.g.MC.dom, ex.pack_key(l.elem), True),
                                        z3.Store(l.g.MC.val, ex.pack_key(l.elem), l.g.LP - l.v.loss_previous)))}


def _chain_inv():
    return {
        'lp': lambda l: l.g.LP == l.v.loss_previous,
        'mc_dom': lambda l: forall_key(lambda k: l.g.MC.dom[k] == ex._perm_before(l.v.permutation_chain, l.i)(k),
                                       pats=lambda k: [l.g.MC.dom[k]]),
        # every feature is credited exactly its own chain contribution (and nothing else)
        'mc_credit': lambda l: forall_key(lambda k: l.v.sage_values.val[k] == l.entry.sage_values.val[k] +
                                          ite(l.g.MC.dom[k], l.g.MC.val[k], 0), pats=lambda k: [l.v.sage_values.val[k]]),
    }


def _perm_inv(l):
    chain = l.v.permutation_chain
    names = l.self.feature_names
    return {
        'perm_onto': land(chain.n == names.n, forall_key(lambda k: implies(names_set(names)(k), exists_int(
            lambda j: land(0 <= j, j < chain.n, chain.arr[j] == k))))),
        'perm_distinct': forall_int(lambda a: forall_int(
            lambda b: implies(land(0 <= a, a < b, b < chain.n), chain.arr[a] != chain.arr[b]))),
        'perm_names': forall_int(lambda j: implies(land(0 <= j, j < chain.n), names_set(names)(chain.arr[j]))),
    }


def _inner_inv(with_set):
    inv = {
        'perm_onto': lambda l: _perm_inv(l)['perm_onto'],
        'perm_distinct': lambda l: _perm_inv(l)['perm_distinct'],
        'perm_names': lambda l: _perm_inv(l)['perm_names'],
        'sv_dom': lambda l: forall_key(lambda k: l.v.sage_values.dom[k] == names_set(l.self.feature_names)(k),
                                       pats=lambda k: [l.v.sage_values.dom[k]]),
        # the credits of this observation telescope: sum(sage) = sum at entry + (loss at entry - current loss)
        'telescoping': lambda l: lemmas.msum_dv(NumDict, l.v.sage_values.dom, l.v.sage_values.val) ==
        lemmas.msum_dv(NumDict, l.entry.sage_values.dom, l.entry.sage_values.val) + l.entry.loss_previous - l.v.loss_previous,
        'tail': lambda l: implies(land(l.i >= 1, l.i == l.n), l.v.loss_previous ==
                                  LOSS(l.self._loss_function, l.v.y_i, MODEL(l.self._model_function, l.v.x_i.t))),
        'frame': lambda l: land(l.v.x_i.t == l.entry.x_i.t, l.v.y_i == l.entry.y_i, l.v.n_inner_samples == l.entry.n_inner_samples,
                                l.v.permutation_chain.t == l.entry.permutation_chain.t,
                                l.v.marginal_prediction.t == l.entry.marginal_prediction.t),
    }
    inv.update(_chain_inv())
    if with_set:
        inv['remaining'] = lambda l: forall_key(
            lambda k: l.v.features_not_in_s.dom[k] == land(names_set(l.self.feature_names)(k),
                                                           lnot(ex._perm_before(l.v.permutation_chain, l.i)(k))),
            pats=lambda k: [l.v.features_not_in_s.dom[k]])
    return inv


def _outer_ghost():
    return {'PS': (TNum, lambda l: z3.RealVal(0),
                   lambda l: l.g.PS + LOSS(l.self._loss_function, l.v.y_i, l.v.marginal_prediction.t) -
                   LOSS(l.self._loss_function, l.v.y_i, MODEL(l.self._model_function, l.v.x_i.t))),
            # CS: the per-observation chain contribution dicts, in order (the chain loop's MC at its exit)
            'CS': (DictList, lambda l: DictList.empty(),
                   lambda l: DictList.mk(l.g.CS.n + 1, z3.Store(l.g.CS.arr, l.g.CS.n, l.run.last_loop.g.MC.t)))}


def _outer_inv():
    return {
        'sv_dom': lambda l: forall_key(lambda k: l.v.sage_values.dom[k] == names_set(l.self.feature_names)(k),
                                       pats=lambda k: [l.v.sage_values.dom[k]]),
        # prefix sums: sum(sage) after m observations = sum_{i<m} (L(y_i, mean prediction) - L(y_i, M(x_i)))
        'prefix': lambda l: land(lemmas.msum_dv(NumDict, l.v.sage_values.dom, l.v.sage_values.val) == l.g.PS,
                                 l.g.PS == BSUM(l.self._loss_function, l.self._model_function, l.a.x_data.t, l.a.y_data.t,
                                                l.v.marginal_prediction.t, l.i)),
        # per feature: the accumulated credit is the sum over the observations so far of that feature's chain contribution
        'per_feature': lambda l: land(l.g.CS.n == l.i, forall_key(
            lambda k: implies(names_set(l.self.feature_names)(k),
                              l.v.sage_values.val[k] == lemmas.ssum(CCOL(l.g.CS.arr, k), l.i)),
            pats=lambda k: [l.v.sage_values.val[k]])),
        # each observation's contributions are over the feature names and telescope to its loss gap
        'cs_rows': lambda l: forall_int(lambda j: implies(land(0 <= j, j < l.i), land(
            forall_key(lambda k: NumDict.dom(l.g.CS.arr[j])[k] == names_set(l.self.feature_names)(k)))),
            pats=lambda j: [l.g.CS.arr[j]]),
        'n_data': lambda l: l.v.n_data == ite(l.i == 0, l.a.x_data.n, l.i),
        'frame': lambda l: land(l.v.marginal_prediction.t == l.entry.marginal_prediction.t,
                                l.v.n_inner_samples == l.entry.n_inner_samples, l.v.x_data.t == l.a.x_data.t,
                                l.v.y_data.t == l.a.y_data.t, l.self.importance_values.t == l.entry_self.importance_values.t),
    }


def _perm_events(events):
    return [e for e in events if e.get('prim') == 'np.random.permutation']


def _outer_body():
    return {
        # C04/D1: exactly one permutation per explained observation, over all feature names
        'one_full_permutation': lambda l: land(len(_perm_events(l.body_events)) == 1,
                                               _perm_events(l.body_events)[0]['arg'] == l.self.feature_names.n),
    }


def _cut_last_empty(run, a, recv):
    l = run.cur_loop
    return implies(l.i + 1 == l.n, im.subset_empty(a.feature_subset))


def _many_requires():
    return {
        'data': lambda c: land(c.a.x_data.n >= 1, c.a.y_data.n == c.a.x_data.n),
        'n_inner_pos': lambda c: (c.a.n_inner_samples >= 1) if ex._given(c, 'n_inner_samples') else True,
    }


def _many_lemmas_entry(c):
    return []


def _sage_at_exit(c):
    sage = c.run.env.get('sage_values')
    if sage is None:
        raise KeyError('local sage_values not bound')
    return sage


def _many_post_lemmas(c):
    """sum(importance) = sum(sage) / N (Lean: msum_div)"""
    sage = _sage_at_exit(c)
    return lemmas.msum_div(NumDict, sage.dom, c.new.importance_values.val, sage.val, R(c.a.x_data.n))


def _many_steps():
    def lem(c):
        return _many_post_lemmas(c)[0]

    def div_pointwise(c):
        return lem(c).arg(0)

    def dom_same(c):
        return c.new.importance_values.dom == _sage_at_exit(c).dom

    def sum_div(c):
        return lem(c).arg(1)

    def prefix_total(c):
        sage = _sage_at_exit(c)
        o = c.old
        return land(c.a.x_data.n >= 1, lemmas.msum_dv(NumDict, sage.dom, sage.val) ==
                    BSUM(o._loss_function, o._model_function, c.a.x_data.t, c.a.y_data.t, c.gout.MP.t, c.a.x_data.n))

    def efficiency(c):
        return _efficiency(c)

    def per_feature_exit(c):
        # loop exit: the accumulated credits are the column sums of the contribution log
        sage, cs = _sage_at_exit(c), c.gout.CS
        return land(c.a.x_data.n >= 1, cs.n == c.a.x_data.n, forall_key(lambda k: implies(
            names_set(c.old.feature_names)(k), sage.val[k] == lemmas.ssum(CCOL(cs.arr, k), c.a.x_data.n)),
            pats=lambda k: [sage.val[k]]))

    def sage_dom(c):
        sage = _sage_at_exit(c)
        return forall_key(lambda k: sage.dom[k] == names_set(c.old.feature_names)(k), pats=lambda k: [sage.dom[k]])

    def per_feature_average(c):
        return _per_feature_average(c)
    return [('div_pointwise', div_pointwise), ('per_feature_exit', per_feature_exit), ('sage_dom', sage_dom),
            ('per_feature_average', per_feature_average, ['div_pointwise', 'per_feature_exit', 'sage_dom']),
            ('dom_same', dom_same), ('sum_div', sum_div, ['div_pointwise', '@lemmas']),
            ('prefix_total', prefix_total), ('efficiency', efficiency, ['dom_same', 'sum_div', 'prefix_total'])]


def _efficiency(c):
    """C05: the returned values sum to the mean over the explained observations of
    (loss of the data set's mean prediction - loss of the model's own prediction)"""
    o = c.old
    iv = c.new.importance_values
    N = c.a.x_data.n
    return sym.forall([z3.Const('ef!mp', PredT.sort())], True) if False else \
        lemmas.msum_dv(NumDict, iv.dom, iv.val) * R(N) == BSUM(o._loss_function, o._model_function, c.a.x_data.t, c.a.y_data.t,
                                                             c.gout.MP.t, N)


def _per_feature_average(c):
    """C05: each returned value is the average, over the explained observations, of that feature's chain contribution
    (CS[i][f] = loss before f joined the coalition in observation i's chain - loss after)"""
    iv, cs, N = c.new.importance_values, c.gout.CS, c.a.x_data.n
    return land(cs.n == N, forall_key(lambda k: implies(
        names_set(c.old.feature_names)(k), iv.val[k] * R(N) == lemmas.ssum(CCOL(cs.arr, k), N)), pats=lambda k: [iv.val[k]]))


def _mp_def(c):
    """the baseline is the mean of the model's predictions over the explained data"""
    outs, xs = c.gout.OUTS, c.a.x_data
    return land(outs.n == xs.n, forall_int(
        lambda i: implies(land(0 <= i, i < xs.n), outs.arr[i] == MODEL(c.old._model_function, xs.arr[i]))),
        c.gout.MP.t == MEANOUT(outs.t))


_many_params = {'x_data': XList, 'y_data': YList, 'n_inner_samples': TOpt(TInt), 'verbose': TBool}
_many_common = dict(
    self_cls='BatchExplainer', params=_many_params, requires=_many_requires(), ret=NumDict,
    modifies=['importance_values'], local_types={'predictions': PredList},
    raises={'CallbackError': {'post': {'estimates_untouched': lambda c: c.new.importance_values.t == c.old.importance_values.t}}},
    ghost_out={'MP': (PredT, lambda c: c.run.env['marginal_prediction'].t),
               'OUTS': (PredList, lambda c: c.run.env['all_predictions'].t),
               'CS': (DictList, lambda c: c.run.last_loop.g.CS.t if c.run.last_loop is not None else DictList.empty())},
    lemmas=_many_post_lemmas, exit_cuts=_many_steps(),
)

fn('BatchExplainer.explain_many', F + 'batch.py', src_cls='BatchSage',
   entry_lemmas=lambda c: bsum_axioms(c.old._loss_function, c.old._model_function) + ccol_axioms(),
   cuts={'Imputer.impute': _cut_last_empty},
   ensures={
       'efficiency': _efficiency,
       'per_feature_average': _per_feature_average,
       'baseline_is_mean_prediction': _mp_def,
       'result_is_field': lambda c: c.res.t == c.new.importance_values.t,
       'args_unchanged': lambda c: land(c.a_new.x_data.t == c.a.x_data.t, c.a_new.y_data.t == c.a.y_data.t),
   },
   loops=[
       loop(ghosts=_outer_ghost(), inv=_outer_inv(), body=_outer_body()),
       loop(ghosts=_chain_ghosts(), inv=_inner_inv(True)),
   ], **_many_common)


# ---- explain_many_original --------------------------------------------------------------------------------------------
def _reads_only_names(c):
    """side condition of the original mode: the explained feature names cover every feature the model reads"""
    z = z3.Const('ro!z', InstT.sort())
    w = z3.Const('ro!w', InstT.sort())
    names = c.old.feature_names
    agree = forall_key(lambda k: implies(names_set(names)(k), land(InstT.dom(z)[k] == InstT.dom(w)[k],
                                                                    InstT.val(z)[k] == InstT.val(w)[k])))
    return sym.forall([z, w], z3.Implies(agree, MODEL(c.old._model_function, z) == MODEL(c.old._model_function, w)),
                      [MODEL(c.old._model_function, z), MODEL(c.old._model_function, w)])


def _rows_have_names(c):
    xs, names = c.a.x_data, c.old.feature_names
    return forall_int(lambda i: implies(land(0 <= i, i < xs.n), forall_key(
        lambda k: implies(names_set(names)(k), InstT.dom(xs.arr[i])[k]))), pats=lambda i: [xs.arr[i]])


def _randint_events(events):
    return [e for e in events if e.get('uniform_int')]


_mid_inv = dict(_inner_inv(False))
_mid_inv['xs_dom'] = lambda l: forall_key(lambda k: l.v.x_s.dom[k] == ex._perm_before(l.v.permutation_chain, l.i)(k),
                                          pats=lambda k: [l.v.x_s.dom[k]])
_mid_inv['xs_val'] = lambda l: forall_key(lambda k: implies(l.v.x_s.dom[k], l.v.x_s.val[k] == InstT.val(l.v.x_i.t)[k]),
                                          pats=lambda k: [l.v.x_s.val[k]])
_mid_inv['frame2'] = lambda l: land(l.v.x_data.t == l.a.x_data.t, l.v.n_data == l.entry.n_data,
                                    l.v.n_background == l.a.x_data.n if l.v.has('n_background') else True)

fn('BatchExplainer.explain_many_original', F + 'batch.py', src_cls='BatchSage',
   cuts={'_get_mean_model_output': lambda run, a, recv: _cut_full_coalition(run, a, recv) if run.loop_stack else True},
   entry_lemmas=lambda c: bsum_axioms(c.old._loss_function, c.old._model_function) + ccol_axioms(),
   **dict(_many_common, requires=dict(_many_requires(), model_reads_only_names=_reads_only_names,
                                      rows_have_names=_rows_have_names),
          local_types={'predictions': PredList, 'x_s': InstT}),
   ensures={
       'efficiency': _efficiency,
       'per_feature_average': _per_feature_average,
       'baseline_is_mean_prediction': _mp_def,
       'result_is_field': lambda c: c.res.t == c.new.importance_values.t,
       'args_unchanged': lambda c: land(c.a_new.x_data.t == c.a.x_data.t, c.a_new.y_data.t == c.a.y_data.t),
   },
   loops=[
       loop(ghosts=_outer_ghost(), inv=_outer_inv(), body=_outer_body()),
       loop(ghosts=_chain_ghosts(), inv=_mid_inv),
       loop(inv={
           # once the coalition covers every feature name, each inner prediction is the model's own prediction
           'preds': lambda l: land(l.v.predictions.n == l.i, implies(
               forall_key(lambda k: implies(names_set(l.self.feature_names)(k), l.v.x_s.dom[k])),
               forall_int(lambda t: implies(land(0 <= t, t < l.i),
                                            l.v.predictions.arr[t] == MODEL(l.self._model_function, l.v.x_i.t)),
                          pats=lambda t: [l.v.predictions.arr[t]]))),
           'frame': lambda l: land(l.v.x_s.t == l.entry.x_s.t, l.v.x_data.t == l.a.x_data.t, l.v.n_data == l.entry.n_data,
                                   l.v.x_i.t == l.entry.x_i.t, l.v.n_background == l.a.x_data.n if l.v.has('n_background') else True),
       }, body={
           # C04/D4: the background row index is drawn from the WHOLE data set: random.randint(0, len(x_data) - 1)
           'background_from_whole_data': lambda l: land(len(_randint_events(l.body_events)) == 1,
                                                        _randint_events(l.body_events)[0]['lo'] == 0,
                                                        _randint_events(l.body_events)[0]['hi'] == l.a.x_data.n - 1),
       }),
   ])


def _cut_full_coalition(run, a, recv):
    """before the mean of the inner predictions is taken in the last step of the chain: the coalition covers all names"""
    l = run.loop_stack[-1]
    return implies(l.i + 1 == l.n, forall_key(lambda k: implies(names_set(l.self.feature_names)(k), l.v.x_s.dom[k])))


# ---- explain_one ---------------------------------------------------------------------------------------------------------
fn('BatchSage.explain_one', F + 'batch.py', self_cls='BatchExplainer',
   params={'x_i': InstT, 'y_i': TVal, 'n_inner_samples': TOpt(TInt), 'original_sage': TBool, 'verbose': TBool},
   requires={'kind': lambda c: c.old.kind == 0,
             'n_inner_pos': lambda c: (c.a.n_inner_samples >= 1) if ex._given(c, 'n_inner_samples') else True,
             'targets_stored': lambda c: land(c.old._storage.store_targets, c.old._storage.kind != 4),
             # original mode: the explained names cover every feature the model reads, and every row has them
             'original_side_condition': lambda c: implies(c.a.original_sage, land(
                 _reads_only_names(c), forall_key(lambda k: implies(names_set(c.old.feature_names)(k), c.a.x_i.dom[k])),
                 # every observation seen so far has the explained features
                 forall_int(lambda i: implies(land(0 <= i, i < c.old._storage.seen), forall_key(
                     lambda k: implies(names_set(c.old.feature_names)(k), InstT.dom(c.old._storage.sx[i])[k]))))))},
   ret=NumDict, modifies=['_storage', 'importance_values'],
   raises={'CallbackError': {'post': {'estimates_untouched': lambda c: c.new.importance_values.t == c.old.importance_values.t}}},
   ensures={'result_is_field': lambda c: c.res.t == c.new.importance_values.t,
            'storage_first': lambda c: len([e for e in c.events if e['kind'] == 'call' and e['callee'] == 'Storage.update']) == 1})

fn('IntervalSage.explain_one', F + 'interval.py', self_cls='BatchExplainer',
   params={'x_i': InstT, 'y_i': TVal, 'n_inner_samples': TOpt(TInt), 'update_storage': TBool, 'force_explain': TBool,
           'verbose': TBool},
   requires={'kind': lambda c: c.old.kind == 1,
             'n_inner_pos': lambda c: (c.a.n_inner_samples >= 1) if ex._given(c, 'n_inner_samples') else True,
             'targets_stored': lambda c: c.old._storage.store_targets,
             'nonempty_when_due': lambda c: lor(c.a.update_storage, c.old._storage._storage_x.n >= 1)},
   ret=NumDict, modifies=['_storage', 'importance_values', 'seen_samples'],
   raises={'CallbackError': {'post': {'estimates_untouched': lambda c: c.new.importance_values.t == c.old.importance_values.t}}},
   ensures={
       'seen': lambda c: c.new.seen_samples == c.old.seen_samples + 1,
       'result_is_field': lambda c: c.res.t == c.new.importance_values.t,
       # not due and not forced: the previous values, unchanged, and the model is not evaluated
       'skip': lambda c: implies(land(lnot(c.a.force_explain), (c.old.seen_samples + 1) % c.old.interval_length != 0),
                                 land(c.new.importance_values.t == c.old.importance_values.t, c.added('model') == 0,
                                      c.added('loss') == 0, c.added('impute') == 0)),
       # due or forced: explain_many over exactly the storage view (the most recent storage_length observations)
       'recompute_on_view': lambda c: implies(
           lor(c.a.force_explain, (c.old.seen_samples + 1) % c.old.interval_length == 0),
           land(*[land(e['args']['x_data'].t == c.new._storage._storage_x.t, e['args']['y_data'].t == c.new._storage._storage_y.t)
                  for e in c.events if e['kind'] == 'call' and e['callee'] == 'BatchExplainer.explain_many'],
                len([e for e in c.events if e['kind'] == 'call' and e['callee'] == 'BatchExplainer.explain_many']) == 1)),
   },
   counts={'storage_update': lambda c: ite(c.a.update_storage, 1, 0)})
