"""C20 refinement contracts: in float mode the arithmetic operators are uninterpreted IEEE operations
(fadd, fsub, fmul, fdiv; only commutativity of fadd/fmul is given), so the obligations below say that
the shipped updates are, operation for operation, the reference recurrences for which the error
bounds of the property are textbook theorems (Welford/West update: Chan, Golub, LeVeque 1983;
Higham 2002, sec. 1.9; convex-combination smoothing: geometric series)."""
import z3
from pyvc.spec import *
from pyvc.pylib import FADD, FSUB, FMUL, FDIV, SQRT
import contracts.trackers  # noqa  (class Tracker)

F = 'ixai/utils/tracker/'


def _comm(f, a, b, target):
    return lor(target == f(a, b), target == f(b, a))


def _welford_ref(c):
    o, n, v = c.old, c.new, R(c.a.value_i)
    n1 = R(o.N + 1)
    d1 = FSUB(v, o.tracked_value)
    mean1 = o.tracked_value
    cands_mean = [FADD(mean1, FDIV(d1, n1)), FADD(FDIV(d1, n1), mean1)]
    out = []
    mean_ok = lor(*[n.tracked_value == m for m in cands_mean])
    d2 = FSUB(v, n.tracked_value)
    prod = [FMUL(d1, d2), FMUL(d2, d1)]
    m2_ok = lor(*[lor(n.sum_squares == FADD(o.sum_squares, p), n.sum_squares == FADD(p, o.sum_squares)) for p in prod])
    return mean_ok, m2_ok


fn('WelfordTracker.update#float', F + 'welford.py', src_cls='WelfordTracker', params={'value_i': TNum},
   self_cls='Tracker', entry_inv=False, exit_inv=False,
   ensures={
       'count': lambda c: c.new.N == c.old.N + 1,
       'welford_mean_form': lambda c: _welford_ref(c)[0],
       'welford_m2_form': lambda c: _welford_ref(c)[1],
   }, returns_self=True, modifies=['N', 'tracked_value', 'sum_squares'])

fn('Tracker.var#float', F + 'welford.py', src_cls='WelfordTracker', src_name='var', kind='property',
   self_cls='Tracker', entry_inv=False, exit_inv=False, pure=True, ret=TNum,
   ensures={'var_form': lambda c: c.res == FDIV(c.old.sum_squares, R(ite(c.old.N >= 1, c.old.N, 1)))})


def _es_ref(c):
    o, n, v = c.old, c.new, R(c.a.value_i)
    a, t = o.alpha, o.tracked_value
    one = z3.RealVal(1)
    left = [FMUL(FSUB(one, a), t), FMUL(t, FSUB(one, a))]
    right = [FMUL(a, v), FMUL(v, a)]
    convex = [FADD(l, r) for l in left for r in right] + [FADD(r, l) for l in left for r in right]
    incr = []
    for p in (FMUL(a, FSUB(v, t)), FMUL(FSUB(v, t), a)):
        incr += [FADD(t, p), FADD(p, t)]
    return lor(*[n.tracked_value == x for x in convex + incr])


fn('ExponentialSmoothingTracker.update#float', F + 'exponential_smoothing.py', src_cls='ExponentialSmoothingTracker',
   params={'value_i': TNum}, self_cls='Tracker', entry_inv=False, exit_inv=False,
   ensures={'count': lambda c: c.new.N == c.old.N + 1, 'es_stable_form': _es_ref},
   returns_self=True, modifies=['N', 'tracked_value'])
