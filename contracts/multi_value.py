"""Contracts for ixai/utils/tracker/multi_value.py (MultiValueTracker)."""
import z3
from pyvc.spec import *
from pyvc.sym import SObj, KeyS
from pyvc import lemmas
import contracts.trackers as tr

F = 'ixai/utils/tracker/multi_value.py'
TrackerT = TObj('Tracker')
TrackDict = TDict(TKey, TrackerT)
NumDict = TDict(TKey, TNum)
NumKDict = TDict(TKey, TNumK)


def TV(term):
    """view of a packed Tracker term"""
    return ObjView(SObj('Tracker', term=term))


def tracker_inv(t):
    """opaque Tracker invariant of a packed tracker"""
    return INV('Tracker', t.term)


def upd_rel(t0, v, t1):
    """t1 is t0 after update(v): exactly what the Tracker.update contract gives a caller (opaque; see trackers.UPD)"""
    return tr.UPD(t0.term, R(v) if not isinstance(v, (int, float)) else z3.RealVal(v), t1.term)


def same_family(t, base):
    return land(t.kind == base.kind, t.alpha == base.alpha)


cls('MultiValueTracker', file=F, opaque_inv=True,
    fields={'N': TInt, 'tracked_value': TrackDict, '_tracked_keys': TSet(TKey), '_base_tracker': TrackerT},
    invariant={
        'N_nonneg': lambda s: s.N >= 0,
        'keys_dom': lambda s: s.tracked_value.dom == s._tracked_keys.dom,
        'base_fresh': lambda s: land(s._base_tracker.N == 0, tracker_inv(s._base_tracker)),
        'elems_inv': lambda s: forall_key(lambda k: implies(s.tracked_value.dom[k],
                                                            land(tracker_inv(TV(s.tracked_value.val[k])),
                                                                 same_family(TV(s.tracked_value.val[k]), s._base_tracker))),
                                          pats=lambda k: [s.tracked_value.val[k]]),
    })

fn('MultiValueTracker.__init__', F, kind='init', params={'base_tracker': TrackerT},
   requires={'base_fresh': lambda c: land(c.a.base_tracker.N == 0, tracker_inv(c.a.base_tracker))},
   ensures={
       'empty': lambda c: land(c.new.N == 0, forall_key(lambda k: lnot(c.new._tracked_keys.dom[k]))),
       'base_copy': lambda c: c.new._base_tracker.term == c.a.base_tracker.term,
   })


def _pointwise(oldT, oldK, base, values, newT, newK):
    """the per-key specification of one update call"""
    def body(k):
        inv = values.dom[k]
        was = oldK.dom[k]
        t1 = TV(newT.val[k])
        t0 = TV(oldT.val[k])
        return land(
            newK.dom[k] == lor(was, inv),
            implies(land(inv, was), upd_rel(t0, values.val[k], t1)),
            implies(land(inv, lnot(was)), upd_rel(base, values.val[k], t1)),          # late key: a fresh base copy
            implies(land(lnot(inv), was), upd_rel(t0, z3.RealVal(0), t1)),             # omitted key: zero-fill
            implies(land(lnot(inv), lnot(was)), newT.val[k] == oldT.val[k]),           # untouched (independence)
        )
    return forall_key(body, pats=lambda k: [newT.val[k]])


fn('MultiValueTracker.update', F, params={'values': NumDict},
   ensures={
       'count': lambda c: c.new.N == c.old.N + 1,
       'pointwise': lambda c: _pointwise(c.old.tracked_value, c.old._tracked_keys, c.old._base_tracker, c.a.values,
                                         c.new.tracked_value, c.new._tracked_keys),
       'keys_monotone': lambda c: forall_key(lambda k: implies(c.old._tracked_keys.dom[k], c.new._tracked_keys.dom[k])),
       'values_unchanged': lambda c: c.a_new.values.t == c.a.values.t,
   },
   modifies=['N', 'tracked_value', '_tracked_keys'], returns_self=True,
   loops=[
       loop(inv={
           'elems_inv': lambda l: CLASSES['MultiValueTracker'].invariant['elems_inv'](l.self),
           'keys_dom': lambda l: l.self.tracked_value.dom == l.self._tracked_keys.dom,
           'keys': lambda l: forall_key(lambda k: l.self._tracked_keys.dom[k] ==
                                        lor(l.entry_self._tracked_keys.dom[k], l.done[k]),
                                        pats=lambda k: [l.self._tracked_keys.dom[k]]),
           'done_upd': lambda l: forall_key(
               lambda k: implies(l.done[k], land(
                   implies(l.entry_self._tracked_keys.dom[k],
                           upd_rel(TV(l.entry_self.tracked_value.val[k]), l.a.values.val[k], TV(l.self.tracked_value.val[k]))),
                   implies(lnot(l.entry_self._tracked_keys.dom[k]),
                           upd_rel(l.self._base_tracker, l.a.values.val[k], TV(l.self.tracked_value.val[k]))))),
               pats=lambda k: [l.self.tracked_value.val[k]]),
           'rest_same': lambda l: forall_key(
               lambda k: implies(lnot(l.done[k]), l.self.tracked_value.val[k] == l.entry_self.tracked_value.val[k]),
               pats=lambda k: [l.self.tracked_value.val[k]]),
       }),
       loop(inv={
           'elems_inv': lambda l: CLASSES['MultiValueTracker'].invariant['elems_inv'](l.self),
           'dom_same': lambda l: l.self.tracked_value.dom == l.entry_self.tracked_value.dom,
           'done_zero': lambda l: forall_key(
               lambda k: implies(l.done[k], upd_rel(TV(l.entry_self.tracked_value.val[k]), z3.RealVal(0),
                                                    TV(l.self.tracked_value.val[k]))),
               pats=lambda k: [l.self.tracked_value.val[k]]),
           'rest_same': lambda l: forall_key(
               lambda k: implies(lnot(l.done[k]), l.self.tracked_value.val[k] == l.entry_self.tracked_value.val[k]),
               pats=lambda k: [l.self.tracked_value.val[k]]),
       }),
   ])

_get_ensures = {
    'keys': lambda c: c.res.dom == c.old._tracked_keys.dom,
    'values': lambda c: forall_key(lambda k: implies(c.old._tracked_keys.dom[k],
                                                     c.res.val[k] == TV(c.old.tracked_value.val[k]).tracked_value),
                                   pats=lambda k: [c.res.val[k]]),
}
fn('MultiValueTracker.__call__', F, pure=True, ret=NumDict, ensures=_get_ensures)
fn('MultiValueTracker.get', F, pure=True, ret=NumDict, ensures=_get_ensures)

# the same getter seen with numeric kinds: the value parts as proved above, kind flags unconstrained
# (over-approximates every numeric type an update may have supplied: int, float, NumPy scalars)
_r = lambda t: TNumK.sort().accessor(0, 0)(t)
_np = lambda t: TNumK.sort().accessor(0, 1)(t)
_fin = lambda t: TNumK.sort().accessor(0, 2)(t)
fn('MultiValueTracker.get#kinds', None, self_cls='MultiValueTracker', pure=True, ret=NumKDict, assume_only=True,
   ensures={
       'keys': lambda c: c.res.dom == c.old._tracked_keys.dom,
       'values': lambda c: forall_key(lambda k: implies(c.old._tracked_keys.dom[k],
                                                        land(_r(c.res.val[k]) == TV(c.old.tracked_value.val[k]).tracked_value,
                                                             _fin(c.res.val[k]))),
                                      pats=lambda k: [c.res.val[k]]),
   }, notes='value part proved as MultiValueTracker.get; kinds arbitrary')


from pyvc.pylib import proj_r_term, proj_r_axiom, card


def _card(c):
    return card(TKey, c.old._tracked_keys.dom)


# ---- get_normalized, value level (plain python numbers: what the explainers use) -------------------------------
def _rawp(c):
    return pure_call('MultiValueTracker.get', c.old)


def _sp(c):
    raw = _rawp(c)
    return lemmas.msum_dv(NumDict, raw.dom, raw.val)


def _norm_lemmas_plain(c):
    raw = _rawp(c)
    return lemmas.msum_scale(NumDict, raw.dom, c.res.val, raw.val, 1 / _sp(c))


fn('MultiValueTracker.get_normalized', F, pure=True, ret=NumDict, lemmas=_norm_lemmas_plain,
   ensures={
       'keys': lambda c: c.res.dom == c.old._tracked_keys.dom,
       'single_raw': lambda c: implies(_card(c) <= 1, c.res.t == _rawp(c).t),
       'ratios': lambda c: implies(land(_card(c) > 1, _sp(c) != 0), forall_key(
           lambda k: implies(c.res.dom[k], c.res.val[k] * _sp(c) == _rawp(c).val[k]))),
       'sums_to_one': lambda c: implies(land(_card(c) > 1, _sp(c) != 0),
                                        lemmas.msum_dv(NumDict, c.res.dom, c.res.val) == 1),
       'zero_sum': lambda c: implies(land(_card(c) > 1, _sp(c) == 0), forall_key(
           lambda k: implies(c.res.dom[k], c.res.val[k] == 0))),
   })


# ---- get_normalized with numeric kinds (C12: "values of any real numeric type") ----------------------------------
def _raw(c):
    """what the getter returns (values proved, numeric kinds arbitrary)"""
    return pure_call('MultiValueTracker.get#kinds', c.old)


def _s(c):
    raw = _raw(c)
    return lemmas.msum_dv(NumDict, raw.dom, proj_r_term(raw.val))


def _norm_lemmas(c):
    raw = _raw(c)
    s = _s(c)
    return [proj_r_axiom(raw.val), proj_r_axiom(c.res.val)] + \
        lemmas.msum_scale(NumDict, raw.dom, proj_r_term(c.res.val), proj_r_term(raw.val), 1 / s)


fn('MultiValueTracker.get_normalized#kinds', F, src_name='get_normalized', pure=True, ret=NumKDict, lemmas=_norm_lemmas,
   callee_variants={'MultiValueTracker.get': 'MultiValueTracker.get#kinds'},
   ensures={
       'keys': lambda c: c.res.dom == c.old._tracked_keys.dom,
       # at most one key: the raw values
       'single_raw': lambda c: implies(_card(c) <= 1, c.res.t == _raw(c).t),
       # more than one key, non-zero sum: ratios preserved, everything finite, adds up to one
       'ratios': lambda c: implies(land(_card(c) > 1, _s(c) != 0), forall_key(
           lambda k: implies(c.res.dom[k], land(_r(c.res.val[k]) * _s(c) == _r(_raw(c).val[k]), _fin(c.res.val[k]))))),
       'sums_to_one': lambda c: implies(land(_card(c) > 1, _s(c) != 0),
                                        lemmas.msum_dv(NumDict, c.res.dom, proj_r_term(c.res.val)) == 1),
       # zero sum: all zeros, never NaN / inf - whatever the numeric kinds of the values
       'zero_sum': lambda c: implies(land(_card(c) > 1, _s(c) == 0), forall_key(
           lambda k: implies(c.res.dom[k], land(_r(c.res.val[k]) == 0, _fin(c.res.val[k]))))),
   })
