"""Contracts for ixai/utils/wrappers (base.Wrapper.convert_arr_output_to_dict, river.RiverWrapper._extend_dict) and the
river-metric loss wrapper (C13).  Arrays returned by prediction functions are modelled by `OutArr` (ndim 0/1/2, dims,
flat data, string-content flag); float(ndarray) follows the installed NumPy (probed on every run)."""
import z3
from pyvc.spec import *
from pyvc.sym import TOutArr, KeyS
from pyvc.symex import NumKeyF
from pyvc.pylib import PredT, STRNUM, IS_NUMSTR

F = 'ixai/utils/wrappers/'
NumDict = TDict(TKey, TNum)

cls('WrapperObj', file=F + 'base.py', fields={'default_label': TKey, '_seen_labels': TSet(TKey)}, optional=['_seen_labels'],
    invariant={'label': lambda s: s.default_label == str_key('output')})


def _idx_key(i):
    return NumKeyF(z3.ToReal(i))


fn('Wrapper.convert_arr_output_to_dict', F + 'base.py', self_cls='WrapperObj', params={'y_prediction': TOutArr},
   ret=NumDict, modifies=[],
   raises={'ValueError': {'when': lambda c: c.a.y_prediction.isstr}},
   ensures={
       # a single-valued prediction - scalar or ANY size-one array: shapes (), (1,), (1,1) - goes under the default label
       'size_one_default_label': lambda c: implies(c.a.y_prediction.size == 1, land(
           forall_key(lambda k: c.res.dom[k] == (k == str_key('output')), pats=lambda k: [c.res.dom[k]]),
           c.res.val[str_key('output')] == c.a.y_prediction.data[0])),
       # a vector: {i: value_i} over the flattened output
       'vector_by_index': lambda c: implies(c.a.y_prediction.size != 1, land(
           forall_int(lambda i: implies(land(0 <= i, i < c.a.y_prediction.size),
                                        land(c.res.dom[_idx_key(i)], c.res.val[_idx_key(i)] == c.a.y_prediction.data[i]))),
           forall_key(lambda k: implies(c.res.dom[k], exists_int(
               lambda i: land(0 <= i, i < c.a.y_prediction.size, k == _idx_key(i))))))),
   })

# ---- RiverWrapper._extend_dict: three kinds of river outputs ---------------------------------------------------------
fn('RiverWrapper._extend_dict#dict', F + 'river.py', src_cls='RiverWrapper', src_name='_extend_dict', self_cls='WrapperObj',
   params={'y_prediction': PredT}, ret=PredT, modifies=[],
   ensures={'passthrough': lambda c: c.res.t == c.a.y_prediction.t})
fn('RiverWrapper._extend_dict#num', F + 'river.py', src_cls='RiverWrapper', src_name='_extend_dict', self_cls='WrapperObj',
   params={'y_prediction': TNum}, ret=PredT, modifies=[],
   ensures={'number_under_default_label': lambda c: land(
       forall_key(lambda k: c.res.dom[k] == (k == str_key('output')), pats=lambda k: [c.res.dom[k]]),
       c.res.val[str_key('output')] == c.a.y_prediction)})
fn('RiverWrapper._extend_dict#label', F + 'river.py', src_cls='RiverWrapper', src_name='_extend_dict', self_cls='WrapperObj',
   params={'y_prediction': TKey}, ret=PredT, modifies=['_seen_labels'],
   requires={'string_label': lambda c: lnot(IS_NUMSTR(c.a.y_prediction))},
   ensures={
       # one-hot over the labels seen so far (including this one); the set of seen labels only grows
       'seen_grows': lambda c: forall_key(lambda k: c.new._seen_labels.dom[k] == lor(c.old._seen_labels.dom[k], k == c.a.y_prediction),
                                          pats=lambda k: [c.new._seen_labels.dom[k]]),
       'one_hot': lambda c: land(
           forall_key(lambda k: c.res.dom[k] == lor(c.old._seen_labels.dom[k], k == c.a.y_prediction), pats=lambda k: [c.res.dom[k]]),
           forall_key(lambda k: implies(c.res.dom[k], c.res.val[k] == ite(k == c.a.y_prediction, 1, 0)), pats=lambda k: [c.res.val[k]])),
   })


# =====================================================================================================================
# C13: a river metric used as loss  (ixai/utils/wrappers/river.py RiverMetricToLossFunction, ixai/utils/validators/loss.py)
# =====================================================================================================================
from pyvc import sym as _sym
from pyvc.sym import pack as _pack, SNum as _SNum, SDict as _SDict

UPDM = z3.Function('metric_update', _sym.ValS, _sym.ValS, _sym.ValS, _sym.ValS)     # state x y_true x y_pred -> state
REVM = z3.Function('metric_revert', _sym.ValS, _sym.ValS, _sym.ValS, _sym.ValS)
GETM = z3.Function('metric_get', _sym.ValS, z3.RealSort())
NUM_AS_VAL = z3.Function('num_as_val', z3.RealSort(), _sym.ValS)
DICT_AS_VAL = z3.Function('dict_as_val_' + PredT.name, PredT.sort(), _sym.ValS)

# ASSUMED contract of river's Metric (a dependency; exercised by the bounded sweep over every accepted metric class):
# revert after update with the same arguments restores the observable state; get() is pure;
# bigger_is_better is a constant; a single-value metric handed a dict (or a dict metric handed a number) raises
# AttributeError and is left unchanged.
cls('RiverMetric', fields={'sigma': TVal, 'bigger_is_better': TBool}, ghost={'wants_dict': TBool}, invariant={})


def _revert_axiom(c):
    s, y, p = z3.Const('rv!s', _sym.ValS), z3.Const('rv!y', _sym.ValS), z3.Const('rv!p', _sym.ValS)
    return _sym.forall([s, y, p], REVM(UPDM(s, y, p), y, p) == s, [REVM(UPDM(s, y, p), y, p)])


IS_DICT_VAL = z3.Function('val_is_dict', _sym.ValS, z3.BoolSort())
_mismatch = lambda c: c.old.wants_dict != IS_DICT_VAL(c.a.y_pred)
fn('RiverMetric.update', None, self_cls='RiverMetric', params={'y_true': TVal, 'y_pred': TVal}, assume_only=True,
   modifies=['sigma'], raises={'AttributeError': {'when': _mismatch}},
   ensures={'step': lambda c: c.new.sigma == UPDM(c.old.sigma, c.a.y_true, c.a.y_pred), 'revertible': _revert_axiom})
fn('RiverMetric.revert', None, self_cls='RiverMetric', params={'y_true': TVal, 'y_pred': TVal}, assume_only=True,
   modifies=['sigma'], raises={'AttributeError': {'when': _mismatch}},
   ensures={'step': lambda c: c.new.sigma == REVM(c.old.sigma, c.a.y_true, c.a.y_pred)})
fn('RiverMetric.get', None, self_cls='RiverMetric', params={}, assume_only=True, pure=True, ret=TNum,
   ensures={'value': lambda c: c.res == GETM(c.old.sigma)})

cls('MetricLoss', file=F + 'river.py',
    fields={'_river_metric': TObj('RiverMetric'), '_sign': TNum, '_dict_input_metric': TBool},
    invariant={
        # negated when the metric is bigger-is-better, so that smaller always means better
        'sign': lambda s: s._sign == ite(s._river_metric.bigger_is_better, -1, 1),
        'input_kind': lambda s: s._dict_input_metric == s._river_metric.wants_dict,
    })

fn('RiverMetricToLossFunction.__init__', F + 'river.py', kind='init', self_cls='MetricLoss',
   params={'river_metric': TObj('RiverMetric'), 'dict_input_metric': TBool},
   requires={'kind_known': lambda c: c.a.dict_input_metric == c.a.river_metric.wants_dict},
   ensures={'metric_untouched': lambda c: c.new._river_metric.term == c.a.river_metric.term,
            'cfg': lambda c: c.new._dict_input_metric == c.a.dict_input_metric})


def _metric_arg(c):
    """what the metric receives: the 'output' entry (0 when missing) for single-value metrics, the whole dict otherwise"""
    p = c.a.y_prediction
    out = str_key('output')
    return ite(c.old._dict_input_metric, DICT_AS_VAL(p.t), NUM_AS_VAL(ite(p.dom[out], p.val[out], 0)))


def _kind_axioms(c):
    x = z3.Real('ka!x')
    d = z3.Const('ka!d', PredT.sort())
    return [_sym.forall([x], z3.Not(IS_DICT_VAL(NUM_AS_VAL(x))), [NUM_AS_VAL(x)]),
            _sym.forall([d], IS_DICT_VAL(DICT_AS_VAL(d)), [DICT_AS_VAL(d)])]


fn('MetricLoss.__call__', F + 'river.py', src_cls='RiverMetricToLossFunction', self_cls='MetricLoss', params={'y_true': TVal, 'y_prediction': PredT},
   ret=TNum, modifies=['_river_metric'], entry_lemmas=_kind_axioms,
   ensures={
       # pure: the metric's own state (hence its reported value) is exactly what it was
       'metric_state_restored': lambda c: c.new._river_metric.term == c.old._river_metric.term,
       # the value a metric in that state reports after this single pair, sign-adjusted
       'value': lambda c: c.res == c.old._sign * GETM(UPDM(c.old._river_metric.sigma, c.a.y_true, _metric_arg(c))),
       'args_unchanged': lambda c: c.a_new.y_prediction.t == c.a.y_prediction.t if isinstance(c.a_new._d.get('y_prediction'), _SDict) else True,
   })

fn('_get_loss_function_from_river_metric', 'ixai/utils/validators/loss.py', kind='function',
   params={'river_metric': TObj('RiverMetric')}, ret=TObj('MetricLoss'), entry_lemmas=_kind_axioms,
   ensures={
       # the probe leaves the metric reverted on both branches and records which kind of input it takes
       'metric_restored': lambda c: c.a_new.river_metric.term == c.a.river_metric.term,
       'wraps_that_metric': lambda c: c.res._river_metric.term == c.a.river_metric.term,
       'kind_detected': lambda c: c.res._dict_input_metric == c.a.river_metric.wants_dict,
   })
