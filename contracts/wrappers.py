"""Contracts for ixai/utils/wrappers (base.Wrapper.convert_arr_output_to_dict, river.RiverWrapper._extend_dict) and the
river-metric loss wrapper (C13).  Arrays returned by prediction functions are modelled by `OutArr` (ndim 0/1/2, dims,
flat data, string-content flag); float(ndarray) follows the installed NumPy (probed on every run)."""
import z3
from pyvc.spec import *
from pyvc.sym import TOutArr, KeyS
from pyvc.symex import NumKeyF
from pyvc.pylib import PredT, STRNUM, IS_NUMSTR

F = 'ixai/utils/wrappers/'
NumDict = TDict(TKey, TNum)

cls('WrapperObj', file=F + 'base.py', fields={'default_label': TKey, '_seen_labels': TSet(TKey)}, optional=['_seen_labels'],
    invariant={'label': lambda s: s.default_label == str_key('output')})


def _idx_key(i):
    return NumKeyF(z3.ToReal(i))


fn('Wrapper.convert_arr_output_to_dict', F + 'base.py', self_cls='WrapperObj', params={'y_prediction': TOutArr},
   ret=NumDict, modifies=[],
   raises={'ValueError': {'when': lambda c: c.a.y_prediction.isstr}},
   ensures={
       # a single-valued prediction - scalar or ANY size-one array: shapes (), (1,), (1,1) - goes under the default label
       'size_one_default_label': lambda c: implies(c.a.y_prediction.size == 1, land(
           forall_key(lambda k: c.res.dom[k] == (k == str_key('output')), pats=lambda k: [c.res.dom[k]]),
           c.res.val[str_key('output')] == c.a.y_prediction.data[0])),
       # a vector: {i: value_i} over the flattened output
       'vector_by_index': lambda c: implies(c.a.y_prediction.size != 1, land(
           forall_int(lambda i: implies(land(0 <= i, i < c.a.y_prediction.size),
                                        land(c.res.dom[_idx_key(i)], c.res.val[_idx_key(i)] == c.a.y_prediction.data[i]))),
           forall_key(lambda k: implies(c.res.dom[k], exists_int(
               lambda i: land(0 <= i, i < c.a.y_prediction.size, k == _idx_key(i))))))),
   })

# ---- RiverWrapper._extend_dict: three kinds of river outputs ---------------------------------------------------------
fn('RiverWrapper._extend_dict#dict', F + 'river.py', src_cls='RiverWrapper', src_name='_extend_dict', self_cls='WrapperObj',
   params={'y_prediction': PredT}, ret=PredT, modifies=[],
   ensures={'passthrough': lambda c: c.res.t == c.a.y_prediction.t})
fn('RiverWrapper._extend_dict#num', F + 'river.py', src_cls='RiverWrapper', src_name='_extend_dict', self_cls='WrapperObj',
   params={'y_prediction': TNum}, ret=PredT, modifies=[],
   ensures={'number_under_default_label': lambda c: land(
       forall_key(lambda k: c.res.dom[k] == (k == str_key('output')), pats=lambda k: [c.res.dom[k]]),
       c.res.val[str_key('output')] == c.a.y_prediction)})
fn('RiverWrapper._extend_dict#label', F + 'river.py', src_cls='RiverWrapper', src_name='_extend_dict', self_cls='WrapperObj',
   params={'y_prediction': TKey}, ret=PredT, modifies=['_seen_labels'],
   requires={'string_label': lambda c: lnot(IS_NUMSTR(c.a.y_prediction))},
   ensures={
       # one-hot over the labels seen so far (including this one); the set of seen labels only grows
       'seen_grows': lambda c: forall_key(lambda k: c.new._seen_labels.dom[k] == lor(c.old._seen_labels.dom[k], k == c.a.y_prediction),
                                          pats=lambda k: [c.new._seen_labels.dom[k]]),
       'one_hot': lambda c: land(
           forall_key(lambda k: c.res.dom[k] == lor(c.old._seen_labels.dom[k], k == c.a.y_prediction), pats=lambda k: [c.res.dom[k]]),
           forall_key(lambda k: implies(c.res.dom[k], c.res.val[k] == ite(k == c.a.y_prediction, 1, 0)), pats=lambda k: [c.res.val[k]])),
   })
