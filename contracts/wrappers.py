"""Contracts for ixai/utils/wrappers (base.Wrapper.convert_arr_output_to_dict, river.RiverWrapper._extend_dict) and the
river-metric loss wrapper (C13).  Arrays returned by prediction functions are modelled by `OutArr` (ndim 0/1/2, dims,
flat data, string-content flag); float(ndarray) follows the installed NumPy (probed on every run)."""
import z3
from pyvc.spec import *
from pyvc.sym import TOutArr, KeyS
from pyvc.symex import NumKeyF
from pyvc.pylib import PredT, STRNUM, IS_NUMSTR

F = 'ixai/utils/wrappers/'
NumDict = TDict(TKey, TNum)

cls('WrapperObj', file=F + 'base.py', fields={'default_label': TKey, '_seen_labels': TSet(TKey)}, optional=['_seen_labels'],
    invariant={'label': lambda s: s.default_label == str_key('output')})


def _idx_key(i):
    return NumKeyF(z3.ToReal(i))


fn('Wrapper.convert_arr_output_to_dict', F + 'base.py', self_cls='WrapperObj', params={'y_prediction': TOutArr},
   ret=NumDict, modifies=[],
   raises={'ValueError': {'when': lambda c: c.a.y_prediction.isstr}},
   ensures={
       # a single-valued prediction - scalar or ANY size-one array: shapes (), (1,), (1,1) - goes under the default label
       'size_one_default_label': lambda c: implies(c.a.y_prediction.size == 1, land(
           forall_key(lambda k: c.res.dom[k] == (k == str_key('output')), pats=lambda k: [c.res.dom[k]]),
           c.res.val[str_key('output')] == c.a.y_prediction.data[0])),
       # a vector: {i: value_i} over the flattened output
       'vector_by_index': lambda c: implies(c.a.y_prediction.size != 1, land(
           forall_int(lambda i: implies(land(0 <= i, i < c.a.y_prediction.size),
                                        land(c.res.dom[_idx_key(i)], c.res.val[_idx_key(i)] == c.a.y_prediction.data[i]))),
           forall_key(lambda k: implies(c.res.dom[k], exists_int(
               lambda i: land(0 <= i, i < c.a.y_prediction.size, k == _idx_key(i))))))),
   })

# ---- RiverWrapper._extend_dict: three kinds of river outputs ---------------------------------------------------------
fn('RiverWrapper._extend_dict#dict', F + 'river.py', src_cls='RiverWrapper', src_name='_extend_dict', self_cls='WrapperObj',
   params={'y_prediction': PredT}, ret=PredT, modifies=[],
   ensures={'passthrough': lambda c: c.res.t == c.a.y_prediction.t})
fn('RiverWrapper._extend_dict#num', F + 'river.py', src_cls='RiverWrapper', src_name='_extend_dict', self_cls='WrapperObj',
   params={'y_prediction': TNum}, ret=PredT, modifies=[],
   ensures={'number_under_default_label': lambda c: land(
       forall_key(lambda k: c.res.dom[k] == (k == str_key('output')), pats=lambda k: [c.res.dom[k]]),
       c.res.val[str_key('output')] == c.a.y_prediction)})
fn('RiverWrapper._extend_dict#label', F + 'river.py', src_cls='RiverWrapper', src_name='_extend_dict', self_cls='WrapperObj',
   params={'y_prediction': TKey}, ret=PredT, modifies=['_seen_labels'],
   requires={'string_label': lambda c: lnot(IS_NUMSTR(c.a.y_prediction))},
   ensures={
       # one-hot over the labels seen so far (including this one); the set of seen labels only grows
       'seen_grows': lambda c: forall_key(lambda k: c.new._seen_labels.dom[k] == lor(c.old._seen_labels.dom[k], k == c.a.y_prediction),
                                          pats=lambda k: [c.new._seen_labels.dom[k]]),
       'one_hot': lambda c: land(
           forall_key(lambda k: c.res.dom[k] == lor(c.old._seen_labels.dom[k], k == c.a.y_prediction), pats=lambda k: [c.res.dom[k]]),
           forall_key(lambda k: implies(c.res.dom[k], c.res.val[k] == ite(k == c.a.y_prediction, 1, 0)), pats=lambda k: [c.res.val[k]])),
   })


# =====================================================================================================================
# C13: a river metric used as loss  (ixai/utils/wrappers/river.py RiverMetricToLossFunction, ixai/utils/validators/loss.py)
# =====================================================================================================================
from pyvc import sym as _sym
from pyvc.sym import pack as _pack, SNum as _SNum, SDict as _SDict

UPDM = z3.Function('metric_update', _sym.ValS, _sym.ValS, _sym.ValS, _sym.ValS)     # state x y_true x y_pred -> state
REVM = z3.Function('metric_revert', _sym.ValS, _sym.ValS, _sym.ValS, _sym.ValS)
GETM = z3.Function('metric_get', _sym.ValS, z3.RealSort())
NUM_AS_VAL = z3.Function('num_as_val', z3.RealSort(), _sym.ValS)
DICT_AS_VAL = z3.Function('dict_as_val_' + PredT.name, PredT.sort(), _sym.ValS)

# ASSUMED contract of river's Metric (a dependency; exercised by the bounded sweep over every accepted metric class):
# revert after update with the same arguments restores the observable state; get() is pure;
# bigger_is_better is a constant; a single-value metric handed a dict (or a dict metric handed a number) raises
# AttributeError and is left unchanged.
cls('RiverMetric', fields={'sigma': TVal, 'bigger_is_better': TBool}, ghost={'wants_dict': TBool}, invariant={})


def _revert_axiom(c):
    s, y, p = z3.Const('rv!s', _sym.ValS), z3.Const('rv!y', _sym.ValS), z3.Const('rv!p', _sym.ValS)
    return _sym.forall([s, y, p], REVM(UPDM(s, y, p), y, p) == s, [REVM(UPDM(s, y, p), y, p)])


IS_DICT_VAL = z3.Function('val_is_dict', _sym.ValS, z3.BoolSort())
_mismatch = lambda c: c.old.wants_dict != IS_DICT_VAL(c.a.y_pred)
fn('RiverMetric.update', None, self_cls='RiverMetric', params={'y_true': TVal, 'y_pred': TVal}, assume_only=True,
   modifies=['sigma'], raises={'AttributeError': {'when': _mismatch}},
   ensures={'step': lambda c: c.new.sigma == UPDM(c.old.sigma, c.a.y_true, c.a.y_pred), 'revertible': _revert_axiom})
fn('RiverMetric.revert', None, self_cls='RiverMetric', params={'y_true': TVal, 'y_pred': TVal}, assume_only=True,
   modifies=['sigma'], raises={'AttributeError': {'when': _mismatch}},
   ensures={'step': lambda c: c.new.sigma == REVM(c.old.sigma, c.a.y_true, c.a.y_pred)})
fn('RiverMetric.get', None, self_cls='RiverMetric', params={}, assume_only=True, pure=True, ret=TNum,
   ensures={'value': lambda c: c.res == GETM(c.old.sigma)})

cls('MetricLoss', file=F + 'river.py',
    fields={'_river_metric': TObj('RiverMetric'), '_sign': TNum, '_dict_input_metric': TBool},
    invariant={
        # negated when the metric is bigger-is-better, so that smaller always means better
        'sign': lambda s: s._sign == ite(s._river_metric.bigger_is_better, -1, 1),
        'input_kind': lambda s: s._dict_input_metric == s._river_metric.wants_dict,
    })

fn('RiverMetricToLossFunction.__init__', F + 'river.py', kind='init', self_cls='MetricLoss',
   params={'river_metric': TObj('RiverMetric'), 'dict_input_metric': TBool},
   requires={'kind_known': lambda c: c.a.dict_input_metric == c.a.river_metric.wants_dict},
   ensures={'metric_untouched': lambda c: c.new._river_metric.term == c.a.river_metric.term,
            'cfg': lambda c: c.new._dict_input_metric == c.a.dict_input_metric})


def _metric_arg(c):
    """what the metric receives: the 'output' entry (0 when missing) for single-value metrics, the whole dict otherwise"""
    p = c.a.y_prediction
    out = str_key('output')
    return ite(c.old._dict_input_metric, DICT_AS_VAL(p.t), NUM_AS_VAL(ite(p.dom[out], p.val[out], 0)))


def _kind_axioms(c):
    x = z3.Real('ka!x')
    d = z3.Const('ka!d', PredT.sort())
    return [_sym.forall([x], z3.Not(IS_DICT_VAL(NUM_AS_VAL(x))), [NUM_AS_VAL(x)]),
            _sym.forall([d], IS_DICT_VAL(DICT_AS_VAL(d)), [DICT_AS_VAL(d)])]


fn('MetricLoss.__call__', F + 'river.py', src_cls='RiverMetricToLossFunction', self_cls='MetricLoss', params={'y_true': TVal, 'y_prediction': PredT},
   ret=TNum, modifies=['_river_metric'], entry_lemmas=_kind_axioms,
   ensures={
       # pure: the metric's own state (hence its reported value) is exactly what it was
       'metric_state_restored': lambda c: c.new._river_metric.term == c.old._river_metric.term,
       # the value a metric in that state reports after this single pair, sign-adjusted
       'value': lambda c: c.res == c.old._sign * GETM(UPDM(c.old._river_metric.sigma, c.a.y_true, _metric_arg(c))),
       'args_unchanged': lambda c: c.a_new.y_prediction.t == c.a.y_prediction.t if isinstance(c.a_new._d.get('y_prediction'), _SDict) else True,
   })

fn('_get_loss_function_from_river_metric', 'ixai/utils/validators/loss.py', kind='function',
   params={'river_metric': TObj('RiverMetric')}, ret=TObj('MetricLoss'), entry_lemmas=_kind_axioms,
   ensures={
       # the probe leaves the metric reverted on both branches and records which kind of input it takes
       'metric_restored': lambda c: c.a_new.river_metric.term == c.a.river_metric.term,
       'wraps_that_metric': lambda c: c.res._river_metric.term == c.a.river_metric.term,
       'kind_detected': lambda c: c.res._dict_input_metric == c.a.river_metric.wants_dict,
   })


# =====================================================================================================================
# C14: input conversion and SklearnWrapper.__call__ (feature names configured)
# =====================================================================================================================
from pyvc.pylib import InstT as _InstT, MatT, RowT, PREDICT
from pyvc.sym import TOutArr as _TOutArr

KeyList = TList(TKey)
InstList = TList(_InstT)
DictList = TList(NumDict)

cls('NamedWrapper', file=F + 'base.py',
    fields={'_feature_names': KeyList, '_prediction_function': TFnRole('predict'), 'default_label': TKey},
    invariant={'label': lambda s: s.default_label == str_key('output'),
               'names_distinct': lambda s: forall_int(lambda i: forall_int(
                   lambda j: implies(land(0 <= i, i < j, j < s._feature_names.n),
                                     s._feature_names.arr[i] != s._feature_names.arr[j])))})


def _row_of(names, x):
    """the row the model receives for instance x: its values for the configured feature names, in that order - a function
    of x AS A MAP (the key order of x cannot matter) that mentions no other feature of x"""
    return lambda row: land(RowT.n(row) == names.n, forall_int(
        lambda t: implies(land(0 <= t, t < names.n), RowT.arr(row)[t] == _InstT.val(x)[names.arr[t]])))


def _has_names(names, x):
    return forall_int(lambda t: implies(land(0 <= t, t < names.n), _InstT.dom(x)[names.arr[t]]))


fn('NamedWrapper.convert_1d_input_to_arr', F + 'base.py', src_cls='Wrapper', self_cls='NamedWrapper', params={'x_dict': _InstT},
   pure=True, ret=MatT, requires={'has_features': lambda c: _has_names(c.old._feature_names, c.a.x_dict.t)},
   ensures={'one_row_by_name': lambda c: land(c.res.n == 1, _row_of(c.old._feature_names, c.a.x_dict.t)(c.res.arr[0]))})

fn('NamedWrapper.convert_2d_input_to_arr', F + 'base.py', src_cls='Wrapper', self_cls='NamedWrapper', params={'x_dicts': InstList},
   pure=True, ret=MatT, local_types={'x_input': MatT},
   requires={'has_features': lambda c: forall_int(lambda i: implies(land(0 <= i, i < c.a.x_dicts.n),
                                                                    _has_names(c.old._feature_names, c.a.x_dicts.arr[i])))},
   ensures={'rows_by_name': lambda c: land(c.res.n == c.a.x_dicts.n, forall_int(
       lambda i: implies(land(0 <= i, i < c.a.x_dicts.n), _row_of(c.old._feature_names, c.a.x_dicts.arr[i])(c.res.arr[i])),
       pats=lambda i: [c.res.arr[i]]))},
   loops=[loop(inv={
       'rows': lambda l: land(l.v.x_input.n == l.i, forall_int(
           lambda j: implies(land(0 <= j, j < l.i), _row_of(l.self._feature_names, l.a.x_dicts.arr[j])(l.v.x_input.arr[j])),
           pats=lambda j: [l.v.x_input.arr[j]])),
       'frame': lambda l: l.v.x_dicts.t == l.a.x_dicts.t,
   })])

fn('NamedWrapper.convert_arr_output_to_dict', F + 'base.py', src_cls='Wrapper', self_cls='NamedWrapper',
   params={'y_prediction': _TOutArr}, pure=True, ret=NumDict,
   raises={'ValueError': {'when': lambda c: c.a.y_prediction.isstr}},
   ensures=dict(FUNCS['Wrapper.convert_arr_output_to_dict'].ensures))


def _canon(c, arr_term):
    return pure_call('NamedWrapper.convert_arr_output_to_dict', c.old, arr_term)


fn('SklearnWrapper.__call__#dict', F + 'sklearn.py', src_cls='SklearnWrapper', src_name='__call__', self_cls='NamedWrapper',
   params={'x': _InstT}, ret=NumDict, modifies=[],
   requires={'has_features': lambda c: _has_names(c.old._feature_names, c.a.x.t)},
   raises={'ValueError': {}},
   ensures={
       # canonical dict of the prediction for the one-row array built BY NAME from the input
       'single': lambda c: sym_exists_row(c, lambda rows: c.res.t == _canon(c, PREDICT(c.old._prediction_function, rows)).t,
                                          [c.a.x.t]),
   })

fn('SklearnWrapper.__call__#list', F + 'sklearn.py', src_cls='SklearnWrapper', src_name='__call__', self_cls='NamedWrapper',
   params={'x': InstList}, ret=DictList, modifies=[],
   requires={'has_features': lambda c: forall_int(lambda i: implies(land(0 <= i, i < c.a.x.n),
                                                                    _has_names(c.old._feature_names, c.a.x.arr[i]))),
             # the model's batch output has one row per input row
             'row_per_input': lambda c: sym.forall([z3.Const('rp!m', MatT.sort())], lor(
                 _TOutArr.f(PREDICT(c.old._prediction_function, z3.Const('rp!m', MatT.sort())), 0) == 0,
                 _TOutArr.f(PREDICT(c.old._prediction_function, z3.Const('rp!m', MatT.sort())), 1) ==
                 MatT.n(z3.Const('rp!m', MatT.sort()))))},
   raises={'ValueError': {}, 'TypeError': {}},
   ensures={
       # the list, in order, of the canonical dicts of the rows of the model's batch output Y = predict(rows built BY NAME)
       'batch_input_by_name': lambda c: sym_exists_rows(c, c.a.x, lambda rows: c.gout.Y.t == PREDICT(c.old._prediction_function, rows)),
       'batch_rows_in_order': lambda c: land(c.res.n == c.gout.Y.d0, forall_int(
           lambda i: implies(land(0 <= i, i < c.res.n), _dict_of_row(c.res.arr[i], c.gout.Y, i)),
           pats=lambda i: [c.res.arr[i]])),
   },
   ghost_out={'Y': (_TOutArr, lambda c: [e for e in c.run.events if e['kind'] == 'predict'][-1]['value'])})


def sym_exists_row(c, body, xs):
    """there is a matrix whose rows are built by name from the inputs xs such that body(matrix)"""
    rows = z3.Const('er!rows', MatT.sort())
    names = c.old._feature_names
    conds = [MatT.n(rows) == len(xs)] + [_row_of(names, x)(MatT.arr(rows)[i]) for i, x in enumerate(xs)]
    return z3.Exists([rows], z3.And(*conds, body(rows)))


def sym_exists_rows(c, xs, body):
    rows = z3.Const('er!rows', MatT.sort())
    names = c.old._feature_names
    return z3.Exists([rows], z3.And(MatT.n(rows) == xs.n, forall_int(
        lambda i: implies(land(0 <= i, i < xs.n), _row_of(names, xs.arr[i])(MatT.arr(rows)[i]))), body(rows)))


def _dict_of_row(d, Y, i):
    """d is the canonical dict of row i of the batch output Y (an element of a 1-d output is a single value)"""
    NumD = NumDict
    dom, val = NumD.dom(d), NumD.val(d)
    sz = z3.If(Y.ndim == 2, Y.d1, 1)
    at = lambda j: Y.data[i * Y.d1 + j]
    return land(
        implies(sz == 1, land(forall_key(lambda k: dom[k] == (k == str_key('output')), pats=lambda k: [dom[k]]),
                              val[str_key('output')] == at(0))),
        implies(sz != 1, land(
            forall_int(lambda j: implies(land(0 <= j, j < sz), land(dom[_idx_key(j)], val[_idx_key(j)] == at(j)))),
            forall_key(lambda k: implies(dom[k], exists_int(lambda j: land(0 <= j, j < sz, k == _idx_key(j))))))))
