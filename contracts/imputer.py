"""Contracts for ixai/imputer: BaseImputer, DefaultImputer, MarginalImputer (TreeImputer: see contracts/tree.py).

One record type `Imputer` (ghost `kind`: 0 default, 1 marginal, 2 any other imputer satisfying the interface).
The interface contract `Imputer.impute` is what the explainers are verified against; it is proved for
DefaultImputer.impute and MarginalImputer.impute (`implements=`) and assumed for a user-supplied imputer.
Ghost result `zs`: the list of model inputs the call evaluated, one per returned prediction.
"""
import z3
from pyvc.spec import *
from pyvc.sym import SList, SSet, SDict
from pyvc.pylib import InstT, PredT, MODEL, card
from pyvc import sym, lemmas
import contracts.storage as st

F = 'ixai/imputer/'
XList = TList(InstT)
PredList = TList(PredT)
KeySet = TSet(TKey)
KeyList = TList(TKey)
VALIDATE = z3.Function('validate_model_function', sym.FnS, sym.FnS)
OTHER_CALLS = None


def _mk_other():
    global OTHER_CALLS
    OTHER_CALLS = z3.Function('imputer_model_calls', TObj('Imputer').sort(), z3.IntSort(), z3.IntSort())


def in_subset(fs, k):
    """membership in the feature subset (a set, or any re-iterable sequence)"""
    if isinstance(fs, SSet):
        return fs.dom[k]
    if isinstance(fs, SList):
        return exists_int(lambda i: land(0 <= i, i < fs.n, fs.arr[i] == k))
    raise TypeError(fs)


def subset_empty(fs):
    if isinstance(fs, SSet):
        return forall_key(lambda k: lnot(fs.dom[k]))
    return fs.n == 0


cls('Imputer', file=F + 'base.py', opaque_inv=True,
    fields={'model_function': TFnRole('model'), 'values': InstT, 'sampling_strategy': TKey,
            'storage_object': TObj('Storage')},
    optional=['values', 'sampling_strategy', 'storage_object'],
    ghost={'kind': TInt},
    invariant={})

_mk_other()

fn('validate_model_function', None, kind='function', params={'model_function': TFnRole('model')}, pure=True,
   ret=TFnRole('model'), assume_only=True,
   ensures={'validated': lambda c: c.res == VALIDATE(c.a.model_function),
            'idempotent': lambda c: VALIDATE(VALIDATE(c.a.model_function)) == VALIDATE(c.a.model_function)},
   notes='proved separately (C14): returns Wrapper instances unchanged, wraps sklearn/river/torch callables')


def agrees_outside(z, x, fs):
    """model input z agrees with the explained instance x on every feature outside the subset"""
    return forall_key(lambda k: implies(lnot(in_subset(fs, k)), land(InstT.dom(z)[k] == InstT.dom(x)[k],
                                                                     InstT.val(z)[k] == InstT.val(x)[k])),
                      pats=lambda k: [InstT.val(z)[k]])


def _zs_ok(c, good):
    zs = c.gout.zs
    return land(zs.n == c.res.n, forall_int(
        lambda j: implies(land(0 <= j, j < c.res.n), land(c.res.arr[j] == MODEL(c.old.model_function, zs.arr[j]),
                                                          good(zs.arr[j]))),
        pats=lambda j: [c.res.arr[j]]))


def _ext_lemmas(c):
    """each model input against the explained instance: dict extensionality instances"""
    zs = c.gout.zs
    return [forall_int(lambda j: lemmas.dict_ext(InstT, zs.arr[j], c.a.x_i.t), pats=lambda j: [zs.arr[j]])]


_iface_ensures = {
    'count': lambda c: c.res.n == c.a.n_samples,
    # every returned prediction is the model's output on an input that agrees with x_i outside the subset
    'agree_outside': lambda c: _zs_ok(c, lambda z: agrees_outside(z, c.a.x_i.t, c.a.feature_subset)),
    # empty subset: the unperturbed prediction, n_samples times
    'empty_identity': lambda c: implies(subset_empty(c.a.feature_subset), forall_int(
        lambda j: implies(land(0 <= j, j < c.res.n), c.res.arr[j] == MODEL(c.old.model_function, c.a.x_i.t)),
        pats=lambda j: [c.res.arr[j]])),
    'frame_args': lambda c: land(c.a_new.x_i.t == c.a.x_i.t, c.a_new.feature_subset.t == c.a.feature_subset.t),
}

for variant, fst in (('', KeySet), ('#list', KeyList)):
    fn('Imputer.impute' + variant, None, self_cls='Imputer',
       params={'feature_subset': fst, 'x_i': InstT, 'n_samples': TInt},
       requires={'n_nonneg': lambda c: c.a.n_samples >= 0},
       ensures=_iface_ensures, ret=PredList, modifies=[], may_fail=True, assume_only=True,
       ghost_out={'zs': (XList, None)},
       # model evaluations: n_samples for the marginal imputer, one for the default imputer, unknown (>= 0) otherwise
       counts={'impute': lambda c: 1,
               'model': lambda c: ite(c.old.kind == 1, c.a.n_samples, ite(c.old.kind == 0, 1, OTHER_CALLS(c.old.term, c.a.n_samples)))},
       notes='interface contract: proved for Default/MarginalImputer.impute, assumed for a user-supplied imputer')

fn('BaseImputer.__init__', F + 'base.py', kind='init', self_cls='Imputer', inline=True)

# ---- DefaultImputer ------------------------------------------------------------------------------------------
fn('DefaultImputer.__init__', F + 'default_imputer.py', kind='init', self_cls='Imputer',
   params={'model_function': TFnRole('model'), 'values': InstT},
   ghost_update=lambda c: {'kind': 0},
   ensures={'cfg': lambda c: land(c.new.values.t == c.a.values.t,
                                  c.new.model_function == VALIDATE(c.a.model_function))})

for variant, fst in (('', KeySet), ('#list', KeyList)):
    fn('DefaultImputer.impute' + variant, F + 'default_imputer.py', src_name='impute', self_cls='Imputer',
       params={'feature_subset': fst, 'x_i': InstT, 'n_samples': TInt},
       requires={'kind': lambda c: c.old.kind == 0, 'n_nonneg': lambda c: c.a.n_samples >= 0,
                 # every requested feature has a configured default
                 'defaults': lambda c: forall_key(lambda k: implies(in_subset(c.a.feature_subset, k), c.old.values.dom[k]))},
       implements='Imputer.impute' + variant, ret=PredList, modifies=[], lemmas=_ext_lemmas,
       ghost_out={'zs': (XList, lambda c: _const_list(c))},
       ensures={
           # inside the subset: the configured default
           'from_defaults': lambda c: _zs_ok(c, lambda z: forall_key(
               lambda k: implies(in_subset(c.a.feature_subset, k),
                                 land(InstT.dom(z)[k], InstT.val(z)[k] == c.old.values.val[k])),
               pats=lambda k: [InstT.val(z)[k]])),
           'one_model_call': lambda c: c.added('model') == 1,
       })


def _const_list(c):
    """ghost: the single model input, repeated n_samples times"""
    ev = [e for e in c.run.events if e['kind'] == 'model']
    z = ev[-1]['x']
    return XList.mk(c.a.n_samples, z3.K(z3.IntSort(), z))


# ---- MarginalImputer ----------------------------------------------------------------------------------------
fn('MarginalImputer.__init__', F + 'marginal_imputer.py', kind='init', self_cls='Imputer',
   params={'model_function': TFnRole('model'), 'sampling_strategy': TKey, 'storage_object': TObj('Storage')},
   requires={'storage_inv': lambda c: INV('Storage', c.a.storage_object.term)},
   ghost_update=lambda c: {'kind': 1},
   ensures={'cfg': lambda c: land(c.new.sampling_strategy == c.a.sampling_strategy,
                                  c.new.model_function == VALIDATE(c.a.model_function),
                                  c.new.storage_object.term == c.a.storage_object.term)})


def rows_have(features, fs):
    """every stored row has every requested feature"""
    return forall_int(lambda i: implies(land(0 <= i, i < features.n), forall_key(
        lambda k: implies(in_subset(fs, k), InstT.dom(features.arr[i])[k]))), pats=lambda i: [features.arr[i]])


def _rr(c):
    """uniform integer draws (random.randrange(n) and random.randint(a, b) are the same thing: a uniform index over lo..hi)"""
    return [e for e in c.events if e['kind'] == 'draw' and e.get('uniform_int')]


def _full_range(e, n):
    return land(e['lo'] == 0, e['hi'] == n - 1)


for variant, fst in (('', KeySet), ('#list', KeyList)):
    fn('Imputer._sample_marginals' + variant, F + 'marginal_imputer.py', src_cls='MarginalImputer',
       src_name='_sample_marginals', kind='static', self_cls=None,
       params={'features': XList, 'feature_subset': fst},
       requires={'rows_have': lambda c: rows_have(c.a.features, c.a.feature_subset)},
       raises={'ValueError': {'when': lambda c: c.a.features.n == 0}},
       ret=InstT, counts={'uniform_int': lambda c: 1},
       ghost_out={'row': (TInt, lambda c: _rr(c)[-1]['value'])},
       # one uniform row index over the whole storage view, every subset feature read from that row
       body_ensures={'draw_full_range': lambda c: land(len(_rr(c)) == 1, _full_range(_rr(c)[0], c.a.features.n))},
       ensures={
           'row_range': lambda c: land(0 <= c.gout.row, c.gout.row < c.a.features.n),
           'keys': lambda c: forall_key(lambda k: c.res.dom[k] == in_subset(c.a.feature_subset, k),
                                        pats=lambda k: [c.res.dom[k]]),
           'same_row': lambda c: forall_key(lambda k: implies(in_subset(c.a.feature_subset, k),
                                                              c.res.val[k] == InstT.val(c.a.features.arr[c.gout.row])[k]),
                                            pats=lambda k: [c.res.val[k]]),
           'frame_args': lambda c: land(c.a_new.features.t == c.a.features.t,
                                        c.a_new.feature_subset.t == c.a.feature_subset.t),
       })

    fn('Imputer._sample_product_marginals' + variant, F + 'marginal_imputer.py', src_cls='MarginalImputer',
       src_name='_sample_product_marginals', kind='static', self_cls=None,
       params={'features': XList, 'feature_subset': fst},
       requires={'rows_have': lambda c: rows_have(c.a.features, c.a.feature_subset)},
       raises={'ValueError': {'when': lambda c: land(c.a.features.n == 0, lnot(subset_empty(c.a.feature_subset)))}},
       ret=InstT, local_types={'sampled_features': InstT},
       ensures={
           'keys': lambda c: forall_key(lambda k: c.res.dom[k] == in_subset(c.a.feature_subset, k),
                                        pats=lambda k: [c.res.dom[k]]),
           # each subset feature comes from some stored row (an independent row per feature)
           'from_rows': lambda c: forall_key(lambda k: implies(in_subset(c.a.feature_subset, k), exists_int(
               lambda j: land(0 <= j, j < c.a.features.n, c.res.val[k] == InstT.val(c.a.features.arr[j])[k]))),
               pats=lambda k: [c.res.val[k]]),
           'frame_args': lambda c: land(c.a_new.features.t == c.a.features.t,
                                        c.a_new.feature_subset.t == c.a.feature_subset.t),
       },
       loops=[loop(
           inv={
               'keys': (lambda l: forall_key(lambda k: l.v.sampled_features.dom[k] == l.done[k],
                                             pats=lambda k: [l.v.sampled_features.dom[k]])) if variant == '' else
                       (lambda l: forall_key(lambda k: l.v.sampled_features.dom[k] == exists_int(
                           lambda i: land(0 <= i, i < l.i, l.a.feature_subset.arr[i] == k)),
                           pats=lambda k: [l.v.sampled_features.dom[k]])),
               'from_rows': lambda l: forall_key(lambda k: implies(l.v.sampled_features.dom[k], exists_int(
                   lambda j: land(0 <= j, j < l.a.features.n,
                                  l.v.sampled_features.val[k] == InstT.val(l.a.features.arr[j])[k]))),
                   pats=lambda k: [l.v.sampled_features.val[k]]),
               'args_same': lambda l: l.v.features.t == l.a.features.t,
           },
           body={
               # one row index per feature, drawn over the whole storage view
               'draw_full_range': lambda l: land(len([e for e in l.body_events if e.get('uniform_int')]) == 1,
                                                 _full_range([e for e in l.body_events if e.get('uniform_int')][0], l.a.features.n)),
           })])

    fn('Imputer._sample' + variant, F + 'marginal_imputer.py', src_cls='MarginalImputer', src_name='_sample', self_cls='Imputer',
       params={'storage_object': TObj('Storage'), 'feature_subset': fst},
       requires={'kind': lambda c: c.old.kind == 1,
                 'rows_have': lambda c: rows_have(c.a.storage_object._storage_x, c.a.feature_subset)},
       raises={'ValueError': {'when': lambda c: c.a.storage_object._storage_x.n == 0}},
       callee_variants={'Imputer._sample_marginals': 'Imputer._sample_marginals' + variant,
                        'Imputer._sample_product_marginals': 'Imputer._sample_product_marginals' + variant},
       ret=InstT, modifies=[],
       ghost_out={'row': (TInt, lambda c: c.run.last_gout['row'].t if 'row' in c.run.last_gout else z3.IntVal(-1))},
       ensures={
           'keys': lambda c: forall_key(lambda k: c.res.dom[k] == in_subset(c.a.feature_subset, k),
                                        pats=lambda k: [c.res.dom[k]]),
           'from_rows': lambda c: forall_key(lambda k: implies(in_subset(c.a.feature_subset, k), exists_int(
               lambda j: land(0 <= j, j < c.a.storage_object._storage_x.n,
                              c.res.val[k] == InstT.val(c.a.storage_object._storage_x.arr[j])[k]))),
               pats=lambda k: [c.res.val[k]]),
           # joint strategy: one stored observation supplies all features
           'joint_same_row': lambda c: implies(c.old.sampling_strategy == str_key('joint'), land(
               0 <= c.gout.row, c.gout.row < c.a.storage_object._storage_x.n,
               forall_key(lambda k: implies(in_subset(c.a.feature_subset, k),
                                            c.res.val[k] == InstT.val(c.a.storage_object._storage_x.arr[c.gout.row])[k]),
                          pats=lambda k: [c.res.val[k]]))),
           'storage_unchanged': lambda c: c.a_new.storage_object.term == c.a.storage_object.term,
           'frame_args': lambda c: c.a_new.feature_subset.t == c.a.feature_subset.t,
       })

    def _good_marginal(c, z, fs=None):
        feats = c.old.storage_object._storage_x
        sub = c.a.feature_subset
        return land(
            forall_key(lambda k: implies(in_subset(sub, k), land(InstT.dom(z)[k], exists_int(
                lambda j: land(0 <= j, j < feats.n, InstT.val(z)[k] == InstT.val(feats.arr[j])[k])))),
                pats=lambda k: [InstT.val(z)[k]]),
            implies(c.old.sampling_strategy == str_key('joint'), exists_int(
                lambda j: land(0 <= j, j < feats.n, forall_key(
                    lambda k: implies(in_subset(sub, k), InstT.val(z)[k] == InstT.val(feats.arr[j])[k]))))))

    def _inv_good(l, z):
        feats = l.self.storage_object._storage_x
        sub = l.a.feature_subset
        return land(
            agrees_outside(z, l.a.x_i.t, sub),
            forall_key(lambda k: implies(in_subset(sub, k), land(InstT.dom(z)[k], exists_int(
                lambda j: land(0 <= j, j < feats.n, InstT.val(z)[k] == InstT.val(feats.arr[j])[k])))),
                pats=lambda k: [InstT.val(z)[k]]),
            implies(l.self.sampling_strategy == str_key('joint'), exists_int(
                lambda j: land(0 <= j, j < feats.n, forall_key(
                    lambda k: implies(in_subset(sub, k), InstT.val(z)[k] == InstT.val(feats.arr[j])[k]))))))

    fn('MarginalImputer.impute' + variant, F + 'marginal_imputer.py', src_name='impute', self_cls='Imputer',
       params={'feature_subset': fst, 'x_i': InstT, 'n_samples': TInt},
       requires={'kind': lambda c: c.old.kind == 1, 'n_nonneg': lambda c: c.a.n_samples >= 0,
                 'rows_have': lambda c: rows_have(c.old.storage_object._storage_x, c.a.feature_subset)},
       raises={'ValueError': {'when': lambda c: land(c.old.storage_object._storage_x.n == 0, c.a.n_samples >= 1)}},
       implements='Imputer.impute' + variant, ret=PredList, modifies=[], local_types={'predictions': PredList},
       lemmas=_ext_lemmas,
       callee_variants={'Imputer._sample': 'Imputer._sample' + variant},
       ghost_out={'zs': (XList, lambda c: c.run.last_loop.g.zs.t if c.run.last_loop is not None else XList.empty())},
       counts={'model': lambda c: c.a.n_samples},
       ensures={
           # inside the subset: the value that feature has in a currently stored observation
           # (the same stored observation for all features under the joint strategy)
           'from_background': (lambda c: _zs_ok(c, lambda z: _good_marginal(c, z))),
           'storage_unchanged': lambda c: c.new.storage_object.term == c.old.storage_object.term,
       },
       loops=[loop(
           ghosts={'zs': (XList, lambda l: XList.empty(),
                          lambda l: XList.mk(l.g.zs.n + 1, z3.Store(l.g.zs.arr, l.g.zs.n,
                                                                    [e for e in l.body_events if e['kind'] == 'model'][-1]['x'])))},
           inv={
               'lens': lambda l: land(l.v.predictions.n == l.i, l.g.zs.n == l.i),
               'preds': lambda l: forall_int(
                   lambda j: implies(land(0 <= j, j < l.i),
                                     land(l.v.predictions.arr[j] == MODEL(l.self.model_function, l.g.zs.arr[j]),
                                          _inv_good(l, l.g.zs.arr[j]))),
                   pats=lambda j: [l.v.predictions.arr[j]]),
               'calls': lambda l: l.cnt('model') == l.entry_cnt('model') + l.i,
               'frame': lambda l: land(l.v.x_i.t == l.a.x_i.t, l.v.feature_subset.t == l.a.feature_subset.t,
                                       l.self.storage_object.term == l.entry_self.storage_object.term),
           })])


# isinstance on the union record: decided by the ghost kind
CLASSES['Imputer'].isinstance_map = {
    'DefaultImputer': lambda s: s.kind == 0, 'MarginalImputer': lambda s: s.kind == 1, 'BaseImputer': lambda s: True,
}
