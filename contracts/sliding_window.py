"""Contracts for ixai/utils/tracker/sliding_window.py (SlidingWindowTracker).

Ghost state: cnt (number of updates), H (history: index -> value), lap (index in H of the value held in slot 0
of the current lap).  Ring-buffer invariant without modular arithmetic: slots [0, window_k) hold H[lap + j] (current
lap), slots [window_k, k) hold H[lap - k + j] (previous lap) or NaN when there was no previous lap - i.e. the buffer
holds exactly the last min(cnt, k) values.
"""
import z3
from pyvc.spec import *
from pyvc.sym import TNDArray
from pyvc.pylib import NANSTAT

F = 'ixai/utils/tracker/sliding_window.py'


def _content(s):
    w = s.sliding_window
    return forall_int(lambda j: implies(land(0 <= j, j < s.k), land(
        implies(j < s.window_k, land(lnot(w.nan[j]), w.arr[j] == s.H[s.lap + j])),
        implies(j >= s.window_k, ite(s.lap == 0, w.nan[j], land(lnot(w.nan[j]), w.arr[j] == s.H[s.lap - s.k + j]))))),
        pats=lambda j: [w.arr[j]])


cls('SlidingWindow', file=F,
    fields={'window_k': TInt, 'k': TInt, 'sliding_window': TNDArray},
    ghost={'cnt': TInt, 'lap': TInt, 'H': TArr(TInt, TNum)},
    invariant={
        'shape': lambda s: land(s.k >= 1, s.sliding_window.n == s.k),
        'position': lambda s: land(0 <= s.window_k, s.window_k <= s.k, s.lap >= 0, s.cnt == s.lap + s.window_k,
                                   lor(s.lap == 0, s.lap >= s.k)),
        # the buffer holds exactly the last min(cnt, k) values supplied
        'last_values': _content,
    })

fn('SlidingWindowTracker.__init__', F, kind='init', self_cls='SlidingWindow', params={'k': TInt},
   raises={'AssertionError': {'when': lambda c: lnot(0 < c.a.k)}},
   ghost_update=lambda c: {'cnt': 0, 'lap': 0, 'H': z3.Const('H0', TArr(TInt, TNum).sort())},
   ensures={'cfg': lambda c: land(c.new.k == c.a.k, c.new.window_k == 0)})


def _ghost(c):
    o = c.old
    wrap = o.window_k >= o.k
    return {'cnt': o.cnt + 1, 'H': z3.Store(o.H, o.cnt, R(c.a.value_i)), 'lap': ite(wrap, o.cnt, o.lap)}


fn('SlidingWindowTracker.update', F, self_cls='SlidingWindow', params={'value_i': TNum}, ghost_update=_ghost,
   returns_self=True, modifies=['window_k', 'sliding_window'],
   ensures={'count': lambda c: c.new.cnt == c.old.cnt + 1})

def _stat_post(c, np_name):
    """the NaN-aware statistic of the buffer; the standard deviation may equally be computed as the root of the variance
    (np.nanstd IS sqrt(np.nanvar))"""
    from pyvc.pylib import SQRT
    buf = c.old.sliding_window.t
    if np_name == 'nanstd':
        return lor(c.res == NANSTAT['nanstd'](buf), c.res == SQRT(NANSTAT['nanvar'](buf)))
    return c.res == NANSTAT[np_name](buf)


for stat, np_name in (('mean', 'nanmean'), ('var', 'nanvar'), ('std', 'nanstd')):
    fn('SlidingWindow.' + stat, F, src_cls='SlidingWindowTracker', kind='property', self_cls='SlidingWindow', pure=True, ret=TNum,
       ensures={'nan_aware_statistic_of_buffer': (lambda c, np_name=np_name: _stat_post(c, np_name))})
fn('SlidingWindow.__call__', F, src_cls='SlidingWindowTracker', self_cls='SlidingWindow', pure=True, ret=TNum,
   ensures={'is_mean': lambda c: c.res == NANSTAT['nanmean'](c.old.sliding_window.t)})
