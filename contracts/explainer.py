"""Contracts for ixai/explainer/base.py, pfi.py and sage/incremental.py.

One record type `Explainer` (ghost `kind`: 0 IncrementalPFI, 1 IncrementalSage).  The model is the uninterpreted
function M(fn, instance) -> prediction dict, the loss L(fn, target, prediction) -> real: every deterministic
model and loss, loss values arbitrary reals.
"""
import z3
from pyvc.spec import *
from pyvc.sym import SObj, KeyS
from pyvc import lemmas, sym
from pyvc.pylib import InstT, PredT, MODEL, LOSS, card, POW, SQRT, proj_r_term, proj_r_axiom
import contracts.trackers as tr
import contracts.multi_value as mv
import contracts.storage as st
import contracts.imputer as im

F = 'ixai/explainer/'
PredList = TList(PredT)
NumDict = TDict(TKey, TNum)
NumKDict = TDict(TKey, TNumK)
KeyList = TList(TKey)
TrackerT = TObj('Tracker')
MVT = TObj('MultiValueTracker')

# ---- _get_mean_model_output ---------------------------------------------------------------------------------------
COL = z3.Function('label_column', PredList.sort(), KeyS, z3.ArraySort(z3.IntSort(), z3.RealSort()))


def col_axiom(L):
    """spec function: COL(L, l)[j] = L[j].get(l, 0) - the j-th prediction's value for label l (missing label counts as 0)"""
    l = z3.Const('col!l', KeyS)
    j = z3.Int('col!j')
    e = PredList.arr(L)[j]
    return sym.forall([l, j], COL(L, l)[j] == z3.If(PredT.dom(e)[l], PredT.val(e)[l], 0), [COL(L, l)[j]])


def _mean_lemmas(c):
    L = c.a.model_outputs.t
    p = z3.Const('cm!p', PredT.sort())
    return [col_axiom(L)] + lemmas.ssum_const_axiom() + lemmas.ssum_congr_axiom() + \
        [sym.forall([p], lemmas.dict_ext(PredT, c.res.t, p))]


def all_equal(outs, p):
    return forall_int(lambda j: implies(land(0 <= j, j < outs.n), outs.arr[j] == p), pats=lambda j: [outs.arr[j]])


fn('_get_mean_model_output', F + 'base.py', kind='function', params={'model_outputs': PredList}, pure=True, ret=PredT,
   lemmas=_mean_lemmas,
   ensures={
       # label set = union of the label sets of the outputs
       'labels': lambda c: forall_key(lambda l: c.res.dom[l] == exists_int(
           lambda j: land(0 <= j, j < c.a.model_outputs.n, PredT.dom(c.a.model_outputs.arr[j])[l])),
           pats=lambda l: [c.res.dom[l]]),
       # per label: the mean of the outputs' values (missing label counts as 0): mean of PREDICTIONS
       'mean_def': lambda c: forall_key(lambda l: implies(c.res.dom[l],
                                                          c.res.val[l] * R(c.a.model_outputs.n) ==
                                                          lemmas.ssum(COL(c.a.model_outputs.t, l), c.a.model_outputs.n)),
                                        pats=lambda l: [c.res.val[l]]),
       # n >= 1 outputs that are all the same prediction p have mean p (used by the efficiency proofs)
       'const_mean': lambda c: sym.forall([z3.Const('cm!q', PredT.sort())], implies(
           land(c.a.model_outputs.n >= 1, all_equal(c.a.model_outputs, z3.Const('cm!q', PredT.sort()))),
           c.res.t == z3.Const('cm!q', PredT.sort()))),
       'args_unchanged': lambda c: c.a_new.model_outputs.t == c.a.model_outputs.t,
   })


def const_mean_instance(run, outs, n, p, res):
    """corollary of the contract of _get_mean_model_output used by the efficiency proofs:
    n >= 1 outputs that all equal p have mean p"""
    return None


# ---- class Explainer ------------------------------------------------------------------------------------------------
PROJ_TV = z3.Function('proj_tracked_value', mv.TrackDict.val(mv.TrackDict.empty()).sort(),
                      z3.ArraySort(KeyS, z3.RealSort()))


def proj_tv_axiom(val):
    k = z3.Const('ptv!k', KeyS)
    return sym.forall([k], PROJ_TV(val)[k] == mv.TV(val[k]).tracked_value, [PROJ_TV(val)[k]])


def imp_sum(s):
    """sum of the importance values = msum over the importance trackers' values"""
    T = s._importance_trackers.tracked_value
    return lemmas.msum_dv(NumDict, T.dom, PROJ_TV(T.val))


def names_set(names):
    """the set of feature names as a predicate on keys"""
    return lambda k: exists_int(lambda i: land(0 <= i, i < names.n, names.arr[i] == k))


cls('Explainer', file=F + 'base.py',
    fields={'_model_function': TFnRole('model'), '_loss_function': TFnRole('loss'), 'feature_names': KeyList,
            'number_of_features': TInt, 'seen_samples': TInt, '_smoothing_alpha': TNum,
            '_marginal_loss_tracker': TrackerT, '_model_loss_tracker': TrackerT,
            '_marginal_prediction_tracker': MVT, '_importance_trackers': MVT, '_variance_trackers': MVT,
            '_storage': TObj('Storage'), '_imputer': TObj('Imputer'), 'n_inner_samples': TInt,
            '_loss_direction': TNum, 'marginal_prediction': PredT},
    optional=['_loss_direction', 'marginal_prediction', 'n_inner_samples'],
    ghost={'kind': TInt},
    invariant={
        'counts': lambda s: land(s.seen_samples >= 0, s.number_of_features == s.feature_names.n),
        'alpha_range': lambda s: land(0 < s._smoothing_alpha, s._smoothing_alpha <= 1),
        'names_distinct': lambda s: forall_int(lambda i: forall_int(
            lambda j: implies(land(0 <= i, i < j, j < s.feature_names.n), s.feature_names.arr[i] != s.feature_names.arr[j]))),
        'same_model': lambda s: s._imputer.model_function == s._model_function,
        # all trackers are copies of one base tracker: the same linear operator in lock-step
        'lockstep': lambda s: land(
            tr_same(s._marginal_loss_tracker, s._model_loss_tracker),
            s._marginal_loss_tracker.N == s._model_loss_tracker.N,
            tr_same(s._importance_trackers._base_tracker, s._model_loss_tracker),
            tr_same(s._variance_trackers._base_tracker, s._model_loss_tracker),
            s._importance_trackers.N == s._model_loss_tracker.N,
            forall_key(lambda k: implies(s._importance_trackers.tracked_value.dom[k],
                                         mv.TV(s._importance_trackers.tracked_value.val[k]).N == s._model_loss_tracker.N),
                       pats=lambda k: [s._importance_trackers.tracked_value.val[k]])),
        # importance values exist for no feature (before the first explanation) or exactly for the feature names
        'imp_dom': lambda s: lor(
            forall_key(lambda k: lnot(s._importance_trackers.tracked_value.dom[k])),
            forall_key(lambda k: s._importance_trackers.tracked_value.dom[k] == names_set(s.feature_names)(k),
                       pats=lambda k: [s._importance_trackers.tracked_value.dom[k]])),
        'imp_dom_N': lambda s: implies(s._model_loss_tracker.N >= 1, forall_key(
            lambda k: s._importance_trackers.tracked_value.dom[k] == names_set(s.feature_names)(k),
            pats=lambda k: [s._importance_trackers.tracked_value.dom[k]])),
        # C01 efficiency (SAGE): the importance values sum to marginal loss - model loss
        'Eff': lambda s: implies(s.kind == 1, imp_sum(s) == s._marginal_loss_tracker.tracked_value -
                                 s._model_loss_tracker.tracked_value),
        # C16: tracked variances are running statistics of non-negative numbers
        'var_nonneg': lambda s: forall_key(lambda k: implies(s._variance_trackers.tracked_value.dom[k],
                                                             mv.TV(s._variance_trackers.tracked_value.val[k]).lo0 == 0),
                                           pats=lambda k: [s._variance_trackers.tracked_value.val[k]]),
    })


def tr_same(a, b):
    return land(a.kind == b.kind, a.alpha == b.alpha)


# ---- validators (assumed here; validate_model_function is proved in C14) --------------------------------------------------
VALIDATE_LOSS = z3.Function('validate_loss_function', sym.FnS, sym.FnS)
fn('validate_loss_function', None, kind='function', params={'loss_function': TFnRole('loss')}, pure=True,
   ret=TFnRole('loss'), assume_only=True,
   ensures={'validated': lambda c: c.res == VALIDATE_LOSS(c.a.loss_function)},
   notes='callables are returned unchanged, river metrics are wrapped (C13)')

_getter = {
    'keys': lambda c, f: c.res.dom == getattr(c.old, f)._tracked_keys.dom,
}


def _mvt_get(field):
    """the getter returns the dict of tracked values of that multi-value tracker (restated, so that callers of the
    property know keys and values without unfolding MultiValueTracker.get)"""
    def wrap(f):
        return lambda c: f(Ctx(old=getattr(c.old, field), res=c.res, run=c.run))
    out = {name: wrap(f) for name, f in mv._get_ensures.items()}
    out['is_get'] = lambda c: c.res.t == pure_call('MultiValueTracker.get', getattr(c.old, field)).t
    return out


fn('Explainer.importance_values', F + 'base.py', src_cls='BaseIncrementalFeatureImportance', kind='property',
   self_cls='Explainer', pure=True, ret=NumDict, ensures=_mvt_get('_importance_trackers'))
fn('Explainer.variances', F + 'base.py', src_cls='BaseIncrementalFeatureImportance', kind='property',
   self_cls='Explainer', pure=True, ret=NumDict, ensures=_mvt_get('_variance_trackers'))

fn('Explainer.update_storage', F + 'base.py', src_cls='BaseIncrementalFeatureImportance', self_cls='Explainer',
   params={'x_i': InstT, 'y_i': TVal}, modifies=['_storage'],
   raises={'CallbackError': {'post': {}}},
   ensures={'args': lambda c: c.a_new.x_i.t == c.a.x_i.t})


# ---- _normalize_importance_values (C16) -----------------------------------------------------------------------------------
_r = mv._r
_fin = mv._fin


def _vals(c):
    return proj_r_term(c.a.importance_values.val)


def _outv(c):
    return proj_r_term(c.res.val)


def _norm_lemmas(c):
    d = c.a.importance_values
    s = lemmas.msum_dv(NumDict, d.dom, _vals(c))
    return [proj_r_axiom(d.val), proj_r_axiom(c.res.val)] + lemmas.msum_scale(NumDict, d.dom, _outv(c), _vals(c), 1 / s)


def _all_equal_vals(c):
    d = c.a.importance_values
    return forall_key(lambda a: forall_key(lambda b: implies(land(d.dom[a], d.dom[b]), _r(d.val[a]) == _r(d.val[b]))))


def _zero_norm(c):
    d = c.a.importance_values
    s = lemmas.msum_dv(NumDict, d.dom, _vals(c))
    return lor(land(c.a.mode == str_key('sum'), s == 0), land(c.a.mode == str_key('delta'), _all_equal_vals(c)))


def _inputs_finite(c):
    d = c.a.importance_values
    return forall_key(lambda k: implies(d.dom[k], _fin(d.val[k])), pats=lambda k: [d.val[k]])


fn('Explainer._normalize_importance_values', F + 'base.py', src_cls='BaseIncrementalFeatureImportance', kind='static',
   self_cls=None, params={'importance_values': NumKDict, 'mode': TKey}, ret=NumKDict, lemmas=_norm_lemmas,
   requires={'finite_inputs': _inputs_finite},
   raises={'NotImplementedError': {'when': lambda c: land(c.a.mode != str_key('sum'), c.a.mode != str_key('delta'))},
           # 'delta' of an empty dict has no max: precondition of the statement (non-empty), not a violation
           'ValueError': {'when': lambda c: land(c.a.mode == str_key('delta'),
                                                 forall_key(lambda k: lnot(c.a.importance_values.dom[k])))}},
   ensures={
       'keys': lambda c: c.res.dom == c.a.importance_values.dom,
       # ratios of the raw values are kept (cross-multiplied form, no reference to the factor)
       'ratios': lambda c: forall_key(lambda a: forall_key(lambda b: implies(
           land(c.res.dom[a], c.res.dom[b]),
           _r(c.res.val[a]) * _r(c.a.importance_values.val[b]) == _r(c.res.val[b]) * _r(c.a.importance_values.val[a])))),
       'sum_one': lambda c: implies(land(c.a.mode == str_key('sum'), lnot(_zero_norm(c))),
                                    lemmas.msum_dv(NumDict, c.res.dom, _outv(c)) == 1),
       'delta_range': lambda c: implies(land(c.a.mode == str_key('delta'), lnot(_zero_norm(c))), land(
           exists_key(lambda a: exists_key(lambda b: land(c.res.dom[a], c.res.dom[b],
                                                          _r(c.res.val[a]) - _r(c.res.val[b]) == 1))),
           forall_key(lambda a: forall_key(lambda b: implies(land(c.res.dom[a], c.res.dom[b]),
                                                             _r(c.res.val[a]) - _r(c.res.val[b]) <= 1))))),
       # zero normaliser: all 0.0, never NaN or infinite - whatever numeric type the raw values have
       'zero_norm': lambda c: implies(_zero_norm(c), forall_key(
           lambda k: implies(c.res.dom[k], land(_r(c.res.val[k]) == 0, _fin(c.res.val[k]))))),
       'finite': lambda c: forall_key(lambda k: implies(c.res.dom[k], _fin(c.res.val[k]))),
       'args_unchanged': lambda c: c.a_new.importance_values.t == c.a.importance_values.t,
   })


# ---- get_confidence_bound (C16) ---------------------------------------------------------------------------------------------
def _var_of(c, k):
    V = c.old._variance_trackers.tracked_value
    return mv.TV(V.val[k]).tracked_value


def bound_expr(v, a, t, d):
    """the shipped per-feature expression: (1-alpha)^t + (1/sqrt(delta)) * sqrt(variance) * sqrt(alpha/(2-alpha));
    that it is the non-negative number (1-alpha)^t + sqrt(variance*alpha/((2-alpha)*delta)), positive for alpha < 1 and
    non-increasing in delta is proved once as scalar lemmas over this expression (props/C16.py)"""
    return POW(1 - a, t) + (1 / SQRT(d)) * SQRT(v) * SQRT(a / (2 - a))


def _bound_clause(c):
    a = c.old._smoothing_alpha
    t = R(c.old.seen_samples)
    d = c.a.delta
    return forall_key(lambda k: implies(c.res.dom[k], c.res.val[k] == bound_expr(_var_of(c, k), a, t, d)),
                      pats=lambda k: [c.res.val[k]])


def _reveal_var_trackers(c):
    """definition of the opaque Tracker invariant at every variance tracker (gives value >= lo0)"""
    V = c.old._variance_trackers.tracked_value
    k = z3.Const('rv!k', KeyS)
    return [sym.forall([k], reveal_inv('Tracker', V.val[k]), [V.val[k]])]


fn('Explainer.get_confidence_bound', F + 'base.py', src_cls='BaseIncrementalFeatureImportance', self_cls='Explainer',
   params={'delta': TNum}, pure=True, ret=NumDict, entry_lemmas=_reveal_var_trackers,
   requires={'explained': lambda c: forall_int(lambda i: implies(
       land(0 <= i, i < c.old.feature_names.n),
       c.old._variance_trackers.tracked_value.dom[c.old.feature_names.arr[i]]))},
   raises={'AssertionError': {'when': lambda c: lnot(land(0 < c.a.delta, c.a.delta <= 1))}},
   ensures={
       'keys': lambda c: forall_key(lambda k: c.res.dom[k] == names_set(c.old.feature_names)(k),
                                    pats=lambda k: [c.res.dom[k]]),
       # bound[f] = bound_expr(variance[f], alpha, seen, delta) for every feature
       'formula': _bound_clause,
       'variances_nonneg': lambda c: forall_key(lambda k: implies(c.res.dom[k], _var_of(c, k) >= 0)),
   })
