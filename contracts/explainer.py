"""Contracts for ixai/explainer/base.py, pfi.py and sage/incremental.py.

One record type `Explainer` (ghost `kind`: 0 IncrementalPFI, 1 IncrementalSage).  The model is the uninterpreted
function M(fn, instance) -> prediction dict, the loss L(fn, target, prediction) -> real: every deterministic
model and loss, loss values arbitrary reals.
"""
import z3
from pyvc.spec import *
from pyvc.sym import SObj, KeyS
from pyvc import lemmas, sym
from pyvc.pylib import InstT, PredT, MODEL, LOSS, card, POW, SQRT, SQF, proj_r_term, proj_r_axiom
import contracts.trackers as tr
import contracts.multi_value as mv
import contracts.storage as st
import contracts.imputer as im

F = 'ixai/explainer/'
PredList = TList(PredT)
NumDict = TDict(TKey, TNum)
NumKDict = TDict(TKey, TNumK)
KeyList = TList(TKey)
TrackerT = TObj('Tracker')
MVT = TObj('MultiValueTracker')

# ---- _get_mean_model_output ---------------------------------------------------------------------------------------
COL = z3.Function('label_column', PredList.sort(), KeyS, z3.ArraySort(z3.IntSort(), z3.RealSort()))


def col_axiom(L):
    """spec function: COL(L, l)[j] = L[j].get(l, 0) - the j-th prediction's value for label l (missing label counts as 0)"""
    l = z3.Const('col!l', KeyS)
    j = z3.Int('col!j')
    e = PredList.arr(L)[j]
    return sym.forall([l, j], COL(L, l)[j] == z3.If(PredT.dom(e)[l], PredT.val(e)[l], 0), [COL(L, l)[j]])


def _mean_lemmas(c):
    L = c.a.model_outputs.t
    return [col_axiom(L)] + lemmas.ssum_const_axiom() + lemmas.ssum_congr_axiom()


def _const_mean_lemmas(c):
    p = z3.Const('cm!p', PredT.sort())
    return [sym.forall([p], lemmas.dict_ext(PredT, c.res.t, p))]


def all_equal(outs, p):
    return forall_int(lambda j: implies(land(0 <= j, j < outs.n), outs.arr[j] == p), pats=lambda j: [outs.arr[j]])


fn('_get_mean_model_output', F + 'base.py', kind='function', params={'model_outputs': PredList}, pure=True, ret=PredT,
   lemmas=_mean_lemmas, clause_lemmas={'const_mean': _const_mean_lemmas},
   ensures={
       # label set = union of the label sets of the outputs
       'labels': lambda c: forall_key(lambda l: c.res.dom[l] == exists_int(
           lambda j: land(0 <= j, j < c.a.model_outputs.n, PredT.dom(c.a.model_outputs.arr[j])[l])),
           pats=lambda l: [c.res.dom[l]]),
       # per label: the mean of the outputs' values (missing label counts as 0): mean of PREDICTIONS
       'mean_def': lambda c: forall_key(lambda l: implies(c.res.dom[l],
                                                          c.res.val[l] * R(c.a.model_outputs.n) ==
                                                          lemmas.ssum(COL(c.a.model_outputs.t, l), c.a.model_outputs.n)),
                                        pats=lambda l: [c.res.val[l]]),
       # n >= 1 outputs that are all the same prediction p have mean p (used by the efficiency proofs)
       'const_mean': lambda c: sym.forall([z3.Const('cm!q', PredT.sort())], implies(
           land(c.a.model_outputs.n >= 1, all_equal(c.a.model_outputs, z3.Const('cm!q', PredT.sort()))),
           c.res.t == z3.Const('cm!q', PredT.sort()))),
       'args_unchanged': lambda c: c.a_new.model_outputs.t == c.a.model_outputs.t,
   })


def const_mean_instance(run, outs, n, p, res):
    """corollary of the contract of _get_mean_model_output used by the efficiency proofs:
    n >= 1 outputs that all equal p have mean p"""
    return None


# ---- class Explainer ------------------------------------------------------------------------------------------------
PROJ_TV = z3.Function('proj_tracked_value', mv.TrackDict.val(mv.TrackDict.empty()).sort(),
                      z3.ArraySort(KeyS, z3.RealSort()))


def proj_tv_axiom(val):
    k = z3.Const('ptv!k', KeyS)
    return sym.forall([k], PROJ_TV(val)[k] == mv.TV(val[k]).tracked_value, [PROJ_TV(val)[k]])


def imp_sum(s):
    """sum of the importance values = msum over the importance trackers' values"""
    T = s._importance_trackers.tracked_value
    return lemmas.msum_dv(NumDict, T.dom, PROJ_TV(T.val))


def names_set(names):
    """the set of feature names as a predicate on keys"""
    return lambda k: exists_int(lambda i: land(0 <= i, i < names.n, names.arr[i] == k))


cls('Explainer', file=F + 'base.py',
    fields={'_model_function': TFnRole('model'), '_loss_function': TFnRole('loss'), 'feature_names': KeyList,
            'number_of_features': TInt, 'seen_samples': TInt, '_smoothing_alpha': TNum,
            '_marginal_loss_tracker': TrackerT, '_model_loss_tracker': TrackerT,
            '_marginal_prediction_tracker': MVT, '_importance_trackers': MVT, '_variance_trackers': MVT,
            '_storage': TObj('Storage'), '_imputer': TObj('Imputer'), 'n_inner_samples': TInt,
            '_loss_direction': TNum, 'marginal_prediction': PredT},
    optional=['_loss_direction', 'marginal_prediction', 'n_inner_samples'],
    ghost={'kind': TInt},
    invariant={
        'counts': lambda s: land(s.seen_samples >= 0, s.number_of_features == s.feature_names.n, s.feature_names.n >= 1),
        'alpha_range': lambda s: land(0 < s._smoothing_alpha, s._smoothing_alpha <= 1),
        'names_distinct': lambda s: forall_int(lambda i: forall_int(
            lambda j: implies(land(0 <= i, i < j, j < s.feature_names.n), s.feature_names.arr[i] != s.feature_names.arr[j]))),
        'same_model': lambda s: s._imputer.model_function == s._model_function,
        # all trackers are copies of one base tracker: the same linear operator in lock-step
        'lockstep': lambda s: implies(s.kind == 1, land(
            tr_same(s._marginal_loss_tracker, s._model_loss_tracker),
            s._marginal_loss_tracker.N == s._model_loss_tracker.N,
            tr_same(s._importance_trackers._base_tracker, s._model_loss_tracker),
            tr_same(s._variance_trackers._base_tracker, s._model_loss_tracker),
            s._importance_trackers.N == s._model_loss_tracker.N,
            forall_key(lambda k: implies(s._importance_trackers.tracked_value.dom[k],
                                         mv.TV(s._importance_trackers.tracked_value.val[k]).N == s._model_loss_tracker.N),
                       pats=lambda k: [s._importance_trackers.tracked_value.val[k]]))),
        # importance values exist for no feature (before the first explanation) or exactly for the feature names
        'imp_dom': lambda s: lor(
            forall_key(lambda k: lnot(s._importance_trackers.tracked_value.dom[k])),
            forall_key(lambda k: s._importance_trackers.tracked_value.dom[k] == names_set(s.feature_names)(k),
                       pats=lambda k: [s._importance_trackers.tracked_value.dom[k]])),
        'imp_dom_N': lambda s: implies(land(s.kind == 1, s._model_loss_tracker.N >= 1), forall_key(
            lambda k: s._importance_trackers.tracked_value.dom[k] == names_set(s.feature_names)(k),
            pats=lambda k: [s._importance_trackers.tracked_value.dom[k]])),
        # C01 efficiency (SAGE): the importance values sum to marginal loss - model loss
        'Eff': lambda s: implies(s.kind == 1, imp_sum(s) == s._marginal_loss_tracker.tracked_value -
                                 s._model_loss_tracker.tracked_value),
        # C16: tracked variances are running statistics of non-negative numbers
        'var_nonneg': lambda s: forall_key(lambda k: implies(s._variance_trackers.tracked_value.dom[k],
                                                             mv.TV(s._variance_trackers.tracked_value.val[k]).lo0 == 0),
                                           pats=lambda k: [s._variance_trackers.tracked_value.val[k]]),
    })


def tr_same(a, b):
    return land(a.kind == b.kind, a.alpha == b.alpha)


# ---- validators (assumed here; validate_model_function is proved in C14) --------------------------------------------------
VALIDATE_LOSS = z3.Function('validate_loss_function', sym.FnS, sym.FnS)
fn('validate_loss_function', None, kind='function', params={'loss_function': TFnRole('loss')}, pure=True,
   ret=TFnRole('loss'), assume_only=True,
   ensures={'validated': lambda c: c.res == VALIDATE_LOSS(c.a.loss_function)},
   notes='callables are returned unchanged, river metrics are wrapped (C13)')

_getter = {
    'keys': lambda c, f: c.res.dom == getattr(c.old, f)._tracked_keys.dom,
}


def _mvt_get(field):
    """the getter returns the dict of tracked values of that multi-value tracker (restated, so that callers of the
    property know keys and values without unfolding MultiValueTracker.get)"""
    def wrap(f):
        return lambda c: f(Ctx(old=getattr(c.old, field), res=c.res, run=c.run))
    out = {name: wrap(f) for name, f in mv._get_ensures.items()}
    out['is_get'] = lambda c: c.res.t == pure_call('MultiValueTracker.get', getattr(c.old, field)).t
    return out


fn('Explainer.importance_values', F + 'base.py', src_cls='BaseIncrementalFeatureImportance', kind='property',
   self_cls='Explainer', pure=True, ret=NumDict, ensures=_mvt_get('_importance_trackers'))
fn('Explainer.variances', F + 'base.py', src_cls='BaseIncrementalFeatureImportance', kind='property',
   self_cls='Explainer', pure=True, ret=NumDict, ensures=_mvt_get('_variance_trackers'))

fn('Explainer.update_storage', F + 'base.py', src_cls='BaseIncrementalFeatureImportance', self_cls='Explainer',
   params={'x_i': InstT, 'y_i': TVal}, modifies=['_storage'],
   raises={'CallbackError': {'post': {}}},
   ensures={'args': lambda c: c.a_new.x_i.t == c.a.x_i.t})


# ---- _normalize_importance_values (C16) -----------------------------------------------------------------------------------
_r = mv._r
_fin = mv._fin


def _vals(c):
    return proj_r_term(c.a.importance_values.val)


def _outv(c):
    return proj_r_term(c.res.val)


def _norm_lemmas(c):
    d = c.a.importance_values
    s = lemmas.msum_dv(NumDict, d.dom, _vals(c))
    return [proj_r_axiom(d.val), proj_r_axiom(c.res.val)] + lemmas.msum_scale(NumDict, d.dom, _outv(c), _vals(c), 1 / s)


def _all_equal_vals(c):
    d = c.a.importance_values
    return forall_key(lambda a: forall_key(lambda b: implies(land(d.dom[a], d.dom[b]), _r(d.val[a]) == _r(d.val[b]))))


def _zero_norm(c):
    d = c.a.importance_values
    s = lemmas.msum_dv(NumDict, d.dom, _vals(c))
    return lor(land(c.a.mode == str_key('sum'), s == 0), land(c.a.mode == str_key('delta'), _all_equal_vals(c)))


def _inputs_finite(c):
    d = c.a.importance_values
    return forall_key(lambda k: implies(d.dom[k], _fin(d.val[k])), pats=lambda k: [d.val[k]])


fn('Explainer._normalize_importance_values', F + 'base.py', src_cls='BaseIncrementalFeatureImportance', kind='static',
   self_cls=None, params={'importance_values': NumKDict, 'mode': TKey}, ret=NumKDict, lemmas=_norm_lemmas,
   requires={'finite_inputs': _inputs_finite},
   raises={'NotImplementedError': {'when': lambda c: land(c.a.mode != str_key('sum'), c.a.mode != str_key('delta'))},
           # 'delta' of an empty dict has no max: precondition of the statement (non-empty), not a violation
           'ValueError': {'when': lambda c: land(c.a.mode == str_key('delta'),
                                                 forall_key(lambda k: lnot(c.a.importance_values.dom[k])))}},
   ensures={
       'keys': lambda c: c.res.dom == c.a.importance_values.dom,
       # ratios of the raw values are kept (cross-multiplied form, no reference to the factor)
       'ratios': lambda c: forall_key(lambda a: forall_key(lambda b: implies(
           land(c.res.dom[a], c.res.dom[b]),
           _r(c.res.val[a]) * _r(c.a.importance_values.val[b]) == _r(c.res.val[b]) * _r(c.a.importance_values.val[a])))),
       'sum_one': lambda c: implies(land(c.a.mode == str_key('sum'), lnot(_zero_norm(c))),
                                    lemmas.msum_dv(NumDict, c.res.dom, _outv(c)) == 1),
       'delta_range': lambda c: implies(land(c.a.mode == str_key('delta'), lnot(_zero_norm(c))), land(
           exists_key(lambda a: exists_key(lambda b: land(c.res.dom[a], c.res.dom[b],
                                                          _r(c.res.val[a]) - _r(c.res.val[b]) == 1))),
           forall_key(lambda a: forall_key(lambda b: implies(land(c.res.dom[a], c.res.dom[b]),
                                                             _r(c.res.val[a]) - _r(c.res.val[b]) <= 1))))),
       # zero normaliser: all 0.0, never NaN or infinite - whatever numeric type the raw values have
       'zero_norm': lambda c: implies(_zero_norm(c), forall_key(
           lambda k: implies(c.res.dom[k], land(_r(c.res.val[k]) == 0, _fin(c.res.val[k]))))),
       'finite': lambda c: forall_key(lambda k: implies(c.res.dom[k], _fin(c.res.val[k]))),
       'args_unchanged': lambda c: c.a_new.importance_values.t == c.a.importance_values.t,
   })


# ---- get_confidence_bound (C16) ---------------------------------------------------------------------------------------------
def _var_of(c, k):
    V = c.old._variance_trackers.tracked_value
    return mv.TV(V.val[k]).tracked_value


def bound_expr(v, a, t, d):
    """the shipped per-feature expression: (1-alpha)^t + (1/sqrt(delta)) * sqrt(variance) * sqrt(alpha/(2-alpha));
    that it is the non-negative number (1-alpha)^t + sqrt(variance*alpha/((2-alpha)*delta)), positive for alpha < 1 and
    non-increasing in delta is proved once as scalar lemmas over this expression (props/C16.py)"""
    return POW(1 - a, t) + (1 / SQRT(d)) * SQRT(v) * SQRT(a / (2 - a))


def _bound_clause(c):
    a = c.old._smoothing_alpha
    t = R(c.old.seen_samples)
    d = c.a.delta
    return forall_key(lambda k: implies(c.res.dom[k], c.res.val[k] == bound_expr(_var_of(c, k), a, t, d)),
                      pats=lambda k: [c.res.val[k]])


def _reveal_var_trackers(c):
    """definition of the opaque Tracker invariant at every variance tracker (gives value >= lo0)"""
    V = c.old._variance_trackers.tracked_value
    k = z3.Const('rv!k', KeyS)
    return [sym.forall([k], reveal_inv('Tracker', V.val[k]), [V.val[k]])]


fn('Explainer.get_confidence_bound', F + 'base.py', src_cls='BaseIncrementalFeatureImportance', self_cls='Explainer',
   params={'delta': TNum}, pure=True, ret=NumDict, entry_lemmas=_reveal_var_trackers,
   requires={'explained': lambda c: forall_int(lambda i: implies(
       land(0 <= i, i < c.old.feature_names.n),
       c.old._variance_trackers.tracked_value.dom[c.old.feature_names.arr[i]]))},
   raises={'AssertionError': {'when': lambda c: lnot(land(0 < c.a.delta, c.a.delta <= 1))}},
   ensures={
       'keys': lambda c: forall_key(lambda k: c.res.dom[k] == names_set(c.old.feature_names)(k),
                                    pats=lambda k: [c.res.dom[k]]),
       # bound[f] = bound_expr(variance[f], alpha, seen, delta) for every feature
       'formula': _bound_clause,
       'variances_nonneg': lambda c: forall_key(lambda k: implies(c.res.dom[k], _var_of(c, k) >= 0)),
   })


# =====================================================================================================================
# constructors
# =====================================================================================================================
def _init_requires(alpha_optional):
    req = {
        'names_distinct': lambda c: forall_int(lambda i: forall_int(
            lambda j: implies(land(0 <= i, i < j, j < c.a.feature_names.n),
                              c.a.feature_names.arr[i] != c.a.feature_names.arr[j]))),
        'n_inner_pos': lambda c: c.a.n_inner_samples >= 1,
        'names_nonempty': lambda c: c.a.feature_names.n >= 1,
        # a user-supplied imputer evaluates the same (validated) model
        'imputer_model': lambda c: implies(_given(c, 'imputer'), c.a.imputer.model_function == im.VALIDATE(c.a.model_function))
        if _given(c, 'imputer') else True,
        'alpha_range': lambda c: land(0 < c.a.smoothing_alpha, c.a.smoothing_alpha <= 1) if _given(c, 'smoothing_alpha') else True,
        # user-supplied storage / imputer objects are well-formed objects of their classes
        'storage_inv': lambda c: INV('Storage', c.a.storage.term) if _given(c, 'storage') else True,
        'imputer_inv': lambda c: land(INV('Imputer', c.a.imputer.term), INV('Storage', c.a.imputer.storage_object.term))
        if _given(c, 'imputer') else True,
    }
    return req


def _given(c, name):
    from pyvc.sym import NONE
    return c.a._d.get(name) is not NONE and c.a._d.get(name) is not None


def _fresh_state(c):
    n = c.new
    return land(n.seen_samples == 0, n.feature_names.t == c.a.feature_names.t,
                n._marginal_loss_tracker.N == 0, n._model_loss_tracker.N == 0,
                n._importance_trackers.N == 0, n._variance_trackers.N == 0, n._marginal_prediction_tracker.N == 0,
                forall_key(lambda k: lnot(n._importance_trackers.tracked_value.dom[k])),
                forall_key(lambda k: lnot(n._variance_trackers.tracked_value.dom[k])),
                n._model_function == im.VALIDATE(c.a.model_function),
                n._loss_function == VALIDATE_LOSS(c.a.loss_function))


_init_params = {'model_function': TFnRole('model'), 'loss_function': TFnRole('loss'), 'feature_names': KeyList,
                'storage': TOpt(TObj('Storage')), 'imputer': TOpt(TObj('Imputer')), 'n_inner_samples': TInt,
                'dynamic_setting': TBool}

fn('IncrementalPFI.__init__', F + 'pfi.py', kind='init', self_cls='Explainer',
   params=dict(_init_params, smoothing_alpha=TNum), requires=_init_requires(False),
   ghost_update=lambda c: {'kind': 0},
   ensures={
       'fresh_state': _fresh_state,
       'cfg': lambda c: land(c.new.n_inner_samples == c.a.n_inner_samples, c.new._smoothing_alpha == c.a.smoothing_alpha),
       # dynamic mode: exponential smoothing with the configured alpha started at zero; static mode: uniform mean
       'tracker_kind': lambda c: land(c.new._importance_trackers._base_tracker.kind == ite(c.a.dynamic_setting, 1, 0),
                                      implies(c.a.dynamic_setting,
                                              c.new._importance_trackers._base_tracker.alpha == c.a.smoothing_alpha)),
   })

fn('IncrementalSage.__init__', F + 'sage/incremental.py', kind='init', self_cls='Explainer',
   params=dict(_init_params, smoothing_alpha=TOpt(TNum), loss_bigger_is_better=TBool), requires=_init_requires(True),
   ghost_update=lambda c: {'kind': 1},
   lemmas=lambda c: lemmas.msum_empty_dom(NumDict, c.new._importance_trackers.tracked_value.dom,
                                          PROJ_TV(c.new._importance_trackers.tracked_value.val)),
   ensures={
       'fresh_state': _fresh_state,
       'cfg': lambda c: land(c.new.n_inner_samples == c.a.n_inner_samples,
                             c.new._smoothing_alpha == (c.a.smoothing_alpha if _given(c, 'smoothing_alpha') else z3.RealVal('0.001')),
                             c.new._loss_direction == ite(c.a.loss_bigger_is_better, 1, 0)),
       'tracker_kind': lambda c: land(c.new._importance_trackers._base_tracker.kind == ite(c.a.dynamic_setting, 1, 0),
                                      implies(c.a.dynamic_setting,
                                              c.new._importance_trackers._base_tracker.alpha == c.new._smoothing_alpha)),
   })


# =====================================================================================================================
# IncrementalPFI.explain_one   (C02, C15, C16, C17)
# =====================================================================================================================
LOSSCOL = z3.Function('loss_column', sym.FnS, sym.ValS, PredList.sort(), z3.ArraySort(z3.IntSort(), z3.RealSort()))
MEANLOSS = z3.Function('mean_loss', sym.FnS, sym.ValS, PredList.sort(), z3.RealSort())
PredListDict = TDict(TKey, PredList)


def meanloss_axioms(fn_, y):
    """spec functions: LOSSCOL(P)[j] = L(y, P[j]);  MEANLOSS(P) = (1/n) * sum_j L(y, P[j])  (n = len(P) >= 1)"""
    P = z3.Const('ml!P', PredList.sort())
    j = z3.Int('ml!j')
    return [sym.forall([P, j], LOSSCOL(fn_, y, P)[j] == LOSS(fn_, y, PredList.arr(P)[j]), [LOSSCOL(fn_, y, P)[j]]),
            sym.forall([P], z3.Implies(PredList.n(P) >= 1, MEANLOSS(fn_, y, P) * z3.ToReal(PredList.n(P)) ==
                                       lemmas.ssum(LOSSCOL(fn_, y, P), PredList.n(P))), [MEANLOSS(fn_, y, P)])]


def _impute_calls(events):
    return [e for e in events if e['kind'] == 'call' and e['callee'].startswith('Imputer.impute')]


def _n_eff(c_or_l):
    """the number of inner samples in force: the per-call override or the constructor value"""
    a = c_or_l.a
    from pyvc.sym import NONE
    if a._d.get('n_inner_samples') is NONE:
        return (c_or_l.old if hasattr(c_or_l, 'old') else c_or_l.entry_self).n_inner_samples
    return a.n_inner_samples


def _n_eff_loop(l):
    """what the statement demands: the per-call override if given, else the constructor value (entry state)"""
    from pyvc.sym import NONE
    if l.run.args0.get('n_inner_samples') is NONE:
        return l.old.n_inner_samples
    return l.a.n_inner_samples


def _n_loc(l):
    """the number of inner samples the loop works with: the (resolved) local if it is a number, else the configured field"""
    from pyvc.sym import SNum
    v = l.run.env.get('n_inner_samples')
    if isinstance(v, SNum):
        return v.t
    return l.self.n_inner_samples


def _tracker_or_base(mvt_view, k):
    """the tracker of key k before an update: its own tracker if tracked, else a fresh base copy"""
    T = mvt_view.tracked_value
    return ite(T.dom[k], T.val[k], mvt_view._base_tracker.term)


def _pfi_value(c, PR, k):
    """the per-observation PFI contribution of feature k: mean loss of the inner predictions - loss of the original one"""
    lossf, y = c.old._loss_function, c.a.y_i
    return MEANLOSS(lossf, y, PR.val[k]) - LOSS(lossf, y, MODEL(c.old._model_function, c.a.x_i.t))


def _local(c, name, typ):
    """a local of the body at exit, bound by name (a rename makes the verdict undecided, not a violation)"""
    v = c.run.env.get(name)
    if v is None or getattr(v, 'typ', None) != typ:
        if c.old is not None and name in ('pfi', 'variances', 'marginal_contributions'):
            return typ.empty()      # path on which nothing was explained
        raise KeyError(f"local {name} not bound")
    return v.t


def _upd_by(c, field, dict_term):
    """new.field is old.field after MultiValueTracker.update(dict): the per-key specification of multi_value.py"""
    o, n = getattr(c.old, field), getattr(c.new, field)
    from pyvc.sym import SDict
    d = SDict(NumDict, dict_term)
    return land(mv._pointwise(o.tracked_value, o._tracked_keys, o._base_tracker, d, n.tracked_value, n._tracked_keys),
                n.N == o.N + 1, n._base_tracker.term == o._base_tracker.term)


def _pfi_post_importance(c):
    """importance trackers are stepped with the dict PFI; PFI has exactly the feature names as keys and
    PFI[f] = mean loss of the inner predictions for f - loss of the unperturbed prediction"""
    PR, PFI = c.gout.PR, c.gout.PFI
    names = c.old.feature_names
    return implies(c.old.seen_samples >= 1, land(
        _upd_by(c, '_importance_trackers', PFI.t),
        forall_key(lambda k: PFI.dom[k] == names_set(names)(k), pats=lambda k: [PFI.dom[k]]),
        forall_int(lambda i: implies(land(0 <= i, i < names.n), land(
            PR.dom[names.arr[i]], PFI.val[names.arr[i]] == _pfi_value(c, PR, names.arr[i]))))))


def _pfi_post_variance(c):
    """variance trackers are stepped with the dict VARS; VARS[f] = (PFI[f] - UPDATED importance[f])^2"""
    PFI, VARS = c.gout.PFI, c.gout.VARS
    names = c.old.feature_names
    newT = c.new._importance_trackers.tracked_value

    def dev(k):
        return SQF(PFI.val[k] - mv.TV(newT.val[k]).tracked_value)     # sq(d) = d*d
    return implies(c.old.seen_samples >= 1, land(
        _upd_by(c, '_variance_trackers', VARS.t),
        forall_key(lambda k: VARS.dom[k] == names_set(names)(k), pats=lambda k: [VARS.dom[k]]),
        forall_int(lambda i: implies(land(0 <= i, i < names.n), VARS.val[names.arr[i]] == dev(names.arr[i])))))


def _estimates_unchanged(c):
    o, n = c.old, c.new
    return land(n._importance_trackers.term == o._importance_trackers.term,
                n._variance_trackers.term == o._variance_trackers.term,
                n._marginal_loss_tracker.term == o._marginal_loss_tracker.term,
                n._model_loss_tracker.term == o._model_loss_tracker.term,
                n._marginal_prediction_tracker.term == o._marginal_prediction_tracker.term,
                n.marginal_prediction.t == o.marginal_prediction.t if o.has('marginal_prediction') else True)


def _storage_last(c):
    """the storage is updated exactly once, with (x, y), after every model / loss / imputer event - or not at all"""
    ev = c.events
    su = [i for i, e in enumerate(ev) if e['kind'] == 'call' and e['callee'] == 'Storage.update']
    others = [i for i, e in enumerate(ev) if e['kind'] in ('model', 'loss', 'model_batch') or
              (e['kind'] == 'call' and e['callee'].startswith('Imputer.impute'))]
    if len(su) > 1:
        return False
    if not su:
        return lnot(c.a.update_storage)
    e = ev[su[0]]
    return land(c.a.update_storage, all(j < su[0] for j in others), e['args']['x'].t == c.a.x_i.t,
                pack_val(e['args']['y']) == c.a.y_i)


def pack_val(v):
    from pyvc.sym import pack, TVal
    return pack(v, TVal)


_explain_params = {'x_i': InstT, 'y_i': TVal, 'n_inner_samples': TOpt(TInt), 'update_storage': TBool}


def _explain_requires():
    return {'n_inner_pos': lambda c: (c.a.n_inner_samples >= 1) if _given(c, 'n_inner_samples') else c.old.n_inner_samples >= 1,
            'n_inner_cfg': lambda c: c.old.n_inner_samples >= 1}


def _explain_lemmas_entry(c):
    return meanloss_axioms(c.old._loss_function, c.a.y_i) + lemmas.ssum_congr_axiom()


def _reveal_updates(c):
    """definitions of the opaque step relation and invariant, for every tracker term (quantified over tracker terms)"""
    t0 = z3.Const('ru!t0', TrackerT.sort())
    t1 = z3.Const('ru!t1', TrackerT.sort())
    v = z3.Real('ru!v')
    return [sym.forall([t0, v, t1], tr.reveal_upd(t0, v, t1), [tr.UPD(t0, v, t1)])]


fn('IncrementalPFI.explain_one', F + 'pfi.py', self_cls='Explainer', params=_explain_params,
   cuts={'MultiValueTracker.update': lambda run, a, recv: _cut_squares_nonneg(run, a, recv)},
   requires=dict(_explain_requires(), kind=lambda c: c.old.kind == 0),
   entry_lemmas=lambda c: _explain_lemmas_entry(c) + tr.reveal_upd_parts(['lo0', 'family', 'inv']),
   ret=NumDict, local_types={'pfi': NumDict},
   modifies=['_importance_trackers', '_variance_trackers', 'seen_samples', '_storage'],
   raises={'CallbackError': {'post': {'estimates_untouched': _estimates_unchanged}}},
   ghost_out={'PR': (PredListDict, lambda c: c.run.last_loop.g.PR.t if c.run.last_loop is not None else PredListDict.empty()),
              'PFI': (NumDict, lambda c: _local(c, 'pfi', NumDict)), 'VARS': (NumDict, lambda c: _local(c, 'variances', NumDict))},
   counts={'storage_update': lambda c: ite(c.a.update_storage, 1, 0)},
   ensures={
       # C02: importance'[f] = step(importance[f], mean imputed loss - original loss); nothing on the first observation
       'pfi_importance': _pfi_post_importance,
       'pfi_variance': _pfi_post_variance,
       'first_only_seeds': lambda c: implies(c.old.seen_samples == 0, land(_estimates_unchanged(c), c.added('model') == 0,
                                                                           c.added('loss') == 0, c.added('impute') == 0)),
       'no_other_keys': lambda c: implies(c.old.seen_samples >= 1, forall_key(
           lambda k: implies(lnot(names_set(c.old.feature_names)(k)),
                             c.new._importance_trackers.tracked_value.dom[k] == c.old._importance_trackers.tracked_value.dom[k]))),
       # C15
       'seen': lambda c: c.new.seen_samples == c.old.seen_samples + 1,
       'budget': lambda c: implies(c.old._imputer.kind == 1, c.added('model') == ite(
           c.old.seen_samples == 0, 0, 1 + c.old.feature_names.n * _n_eff(c))),
       'impute_calls': lambda c: c.added('impute') == ite(c.old.seen_samples == 0, 0, c.old.feature_names.n),
       'storage_last': _storage_last,
       'result_is_property': lambda c: c.res.t == pure_call('Explainer.importance_values', c.new).t,
       'args_unchanged': lambda c: land(c.a_new.x_i.t == c.a.x_i.t, c.a_new.y_i == c.a.y_i),
   },
   loops=[loop(
       counters=['impute', 'model', 'loss'],
       ghosts={'PR': (PredListDict, lambda l: PredListDict.empty(),
                      lambda l: PredListDict.mk(z3.Store(l.g.PR.dom, pack_key(l.elem), True),
                                                z3.Store(l.g.PR.val, pack_key(l.elem), _impute_calls(l.body_events)[-1]['res'].t)))},
       inv={
           'pfi_dom': lambda l: forall_key(lambda k: l.v.pfi.dom[k] == exists_int(
               lambda j: land(0 <= j, j < l.i, l.self.feature_names.arr[j] == k)), pats=lambda k: [l.v.pfi.dom[k]]),
           'pfi_val': lambda l: forall_int(lambda j: implies(land(0 <= j, j < l.i), land(
               l.g.PR.dom[l.self.feature_names.arr[j]],
               l.v.pfi.val[l.self.feature_names.arr[j]] ==
               MEANLOSS(l.self._loss_function, l.a.y_i, l.g.PR.val[l.self.feature_names.arr[j]]) - l.v.original_loss))),
           'calls': lambda l: land(l.cnt('impute') == l.entry_cnt('impute') + l.i,
                                   implies(l.self._imputer.kind == 1, l.cnt('model') == l.entry_cnt('model') + l.i * _n_loc(l))),
           'frame': lambda l: land(l.v.x_i.t == l.a.x_i.t, l.v.original_loss == l.entry.original_loss),
       },
       body={
           # the imputer is asked for exactly this one feature, the instance itself and n inner samples
           'single_feature_subset': lambda l: land(
               len(_impute_calls(l.body_events)) == 1,
               _impute_calls(l.body_events)[0]['args']['feature_subset'].n == 1,
               _impute_calls(l.body_events)[0]['args']['feature_subset'].arr[0] == pack_key(l.elem),
               _impute_calls(l.body_events)[0]['args']['x_i'].t == l.a.x_i.t,
               _impute_calls(l.body_events)[0]['args']['n_samples'].t == _n_eff_loop(l)),
       })])


def pack_key(v):
    from pyvc.sym import pack
    return pack(v)


# =====================================================================================================================
# IncrementalSage: getters and explain_one   (C01, C03, C15, C16, C17)
# =====================================================================================================================
fn('Explainer.marginal_loss', F + 'sage/incremental.py', src_cls='IncrementalSage', kind='property', self_cls='Explainer',
   pure=True, ret=TNum, requires={'kind': lambda c: c.old.kind == 1},
   ensures={'value': lambda c: c.res == c.old._marginal_loss_tracker.tracked_value + c.old._loss_direction})
fn('Explainer.model_loss', F + 'sage/incremental.py', src_cls='IncrementalSage', kind='property', self_cls='Explainer',
   pure=True, ret=TNum, requires={'kind': lambda c: c.old.kind == 1},
   ensures={'value': lambda c: c.res == c.old._model_loss_tracker.tracked_value + c.old._loss_direction})
fn('Explainer.explained_loss', F + 'sage/incremental.py', src_cls='IncrementalSage', kind='property', self_cls='Explainer',
   pure=True, ret=TNum, requires={'kind': lambda c: c.old.kind == 1},
   ensures={
       # the direction offset is added to both terms and cancels
       'value': lambda c: c.res == c.old._marginal_loss_tracker.tracked_value - c.old._model_loss_tracker.tracked_value,
       # C01 at the level of the public API: the importance values sum to the explained loss
       'efficiency': lambda c: imp_sum(c.old) == c.res,
   })

MEANOUT = lambda preds_term: pure_call('_get_mean_model_output', None, preds_term).t
NumList = TList(TNum)


def _perm_before(perm, i):
    return lambda k: exists_int(lambda j: land(0 <= j, j < i, perm.arr[j] == k))


def _sage_chain(c):
    """C03: with PERM the drawn order, PRD[f] the imputer result for the step that reveals f, LS the chain of losses:
    LS[0] = L(y, normalised running-mean prediction), LS[j+1] = L(y, mean(PRD[PERM[j]])), credit[PERM[j]] = LS[j] - LS[j+1]"""
    PERM, PRD, MC, LS = c.gout.PERM, c.gout.PRD, c.gout.MC, c.gout.LS
    names = c.old.feature_names
    lossf, y = c.old._loss_function, c.a.y_i
    n = names.n
    return implies(c.old.seen_samples >= 1, land(
        PERM.n == n, LS.n == n + 1,
        LS.arr[0] == LOSS(lossf, y, c.new.marginal_prediction.t),
        forall_int(lambda j: implies(land(0 <= j, j < n), land(
            PRD.dom[PERM.arr[j]],
            LS.arr[j + 1] == LOSS(lossf, y, MEANOUT(PRD.val[PERM.arr[j]])),
            MC.dom[PERM.arr[j]],
            MC.val[PERM.arr[j]] == LS.arr[j] - LS.arr[j + 1]))),
        # the last coalition is the full feature set: the chain ends at the model loss
        LS.arr[n] == LOSS(lossf, y, MODEL(c.old._model_function, c.a.x_i.t))))


def _sage_trackers(c):
    o, n = c.old, c.new
    lossf, y = o._loss_function, c.a.y_i
    pred = MODEL(o._model_function, c.a.x_i.t)
    return implies(o.seen_samples >= 1, land(
        tr.UPD(o._model_loss_tracker.term, LOSS(lossf, y, pred), n._model_loss_tracker.term),
        _upd_by(c, '_marginal_prediction_tracker', pred),
        n.marginal_prediction.t == pure_call('MultiValueTracker.get_normalized', n._marginal_prediction_tracker).t,
        tr.UPD(o._marginal_loss_tracker.term, LOSS(lossf, y, n.marginal_prediction.t), n._marginal_loss_tracker.term)))


def _sage_importance(c):
    MC = c.gout.MC
    names = c.old.feature_names
    return implies(c.old.seen_samples >= 1, land(
        _upd_by(c, '_importance_trackers', MC.t),
        forall_key(lambda k: MC.dom[k] == names_set(names)(k), pats=lambda k: [MC.dom[k]])))


def _sage_variance(c):
    MC, VARS = c.gout.MC, c.gout.VARS
    names = c.old.feature_names
    newT = c.new._importance_trackers.tracked_value

    def dev(k):
        return SQF(MC.val[k] - mv.TV(newT.val[k]).tracked_value)      # sq(d) = d*d
    return implies(c.old.seen_samples >= 1, land(
        _upd_by(c, '_variance_trackers', VARS.t),
        forall_key(lambda k: VARS.dom[k] == names_set(names)(k), pats=lambda k: [VARS.dom[k]]),
        forall_int(lambda i: implies(land(0 <= i, i < names.n), VARS.val[names.arr[i]] == dev(names.arr[i])))))


def _eff_lemmas(c):
    """msum lemma instances for the induction step of the efficiency invariant (Lean: msum_linear)"""
    o, n = c.old, c.new
    MC = c.gout.MC
    oT, nT = o._importance_trackers.tracked_value, n._importance_trackers.tracked_value
    g = tr._gain(o._model_loss_tracker)
    out = [proj_tv_axiom(oT.val), proj_tv_axiom(nT.val)]
    # already explained before: imp' = (1-g) imp + g mc on the feature names
    out += lemmas.msum_linear(NumDict, nT.dom, PROJ_TV(nT.val), PROJ_TV(oT.val), MC.val, 1 - g, g)
    # first explanation: imp' = g mc (+ 0 mc)
    out += lemmas.msum_linear(NumDict, nT.dom, PROJ_TV(nT.val), MC.val, MC.val, g, z3.RealVal(0))
    return out


def _perm_used(c, e):
    """the drawn permutation is over all feature names (names themselves, or their indices) and the chain follows it"""
    names = c.old.feature_names
    PERM = c.gout.PERM
    if e['value'].sort() == KeyList.sort():
        return land(e['arg'] == names.t, e['value'] == PERM.t)
    idx = TList(TInt)
    return land(e['arg'] == names.n, PERM.n == names.n, forall_int(
        lambda j: implies(land(0 <= j, j < names.n), PERM.arr[j] == names.arr[idx.arr(e['value'])[j]])))


def _subset_is_complement(l):
    ev = _impute_calls(l.body_events)
    if len(ev) != 1:
        return False
    sub = ev[0]['args']['feature_subset']
    names = l.self.feature_names
    perm = l.v.permutation_chain
    return land(
        # the imputer receives exactly the features NOT yet revealed (the complement of the coalition)
        forall_key(lambda k: sub.dom[k] == land(names_set(names)(k), lnot(_perm_before(perm, l.i + 1)(k))),
                   pats=lambda k: [sub.dom[k]]),
        ev[0]['args']['x_i'].t == l.a.x_i.t, ev[0]['args']['n_samples'].t == _n_eff_loop(l))


def _cut_last_subset_empty(run, a, recv):
    """intermediate assertion before each imputer call: in the last step of the chain nothing is left to impute"""
    l = run.cur_loop
    return implies(l.i + 1 == l.n, im.subset_empty(a.feature_subset))


def _cut_squares_nonneg(run, a, recv):
    """intermediate assertion before the variance trackers are stepped: they are fed squares"""
    if recv is not run.self_obj.getfield('_variance_trackers'):
        return True
    return forall_key(lambda k: implies(a.values.dom[k], a.values.val[k] >= 0), pats=lambda k: [a.values.val[k]])


def _eff_steps():
    """proof steps for the induction step of the efficiency invariant (each proved, then assumed)"""
    def parts(c):
        o, n = c.old, c.new
        oT, nT = o._importance_trackers.tracked_value, n._importance_trackers.tracked_value
        g = tr._gain(o._model_loss_tracker)
        return o, n, oT, nT, g, c.gout.MC

    def explained(c):
        return c.old.seen_samples >= 1

    def dom_names(c):
        o, n, oT, nT, g, MC = parts(c)
        return implies(explained(c), land(nT.dom == MC.dom, lor(oT.dom == nT.dom, forall_key(lambda k: lnot(oT.dom[k])))))

    def gains(c):
        o, n, oT, nT, g, MC = parts(c)
        return implies(explained(c), forall_key(lambda k: implies(nT.dom[k], land(
            implies(oT.dom[k], tr._gain(mv.TV(oT.val[k])) == g),
            implies(lnot(oT.dom[k]), tr._gain(o._importance_trackers._base_tracker) == g))), pats=lambda k: [nT.val[k]]))

    def lem_a(c):
        o, n, oT, nT, g, MC = parts(c)
        return lemmas.msum_linear(NumDict, nT.dom, PROJ_TV(nT.val), PROJ_TV(oT.val), MC.val, 1 - g, g)[0]

    def lem_b(c):
        o, n, oT, nT, g, MC = parts(c)
        return lemmas.msum_linear(NumDict, nT.dom, PROJ_TV(nT.val), MC.val, MC.val, g, z3.RealVal(0))[0]

    def case_a(c):
        o, n, oT, nT, g, MC = parts(c)
        return land(explained(c), oT.dom == nT.dom)

    def case_b(c):
        o, n, oT, nT, g, MC = parts(c)
        return land(explained(c), forall_key(lambda k: lnot(oT.dom[k])))

    def proj_k(c):
        o, n, oT, nT, g, MC = parts(c)
        return forall_key(lambda k: land(PROJ_TV(nT.val)[k] == mv.TV(nT.val[k]).tracked_value,
                                         PROJ_TV(oT.val)[k] == mv.TV(oT.val[k]).tracked_value),
                          pats=lambda k: [PROJ_TV(nT.val)[k]])

    def lin_a(c):
        o, n, oT, nT, g, MC = parts(c)
        return implies(case_a(c), forall_key(lambda k: implies(nT.dom[k], mv.TV(nT.val[k]).tracked_value ==
                                                               mv.TV(oT.val[k]).tracked_value +
                                                               g * (MC.val[k] - mv.TV(oT.val[k]).tracked_value)),
                                             pats=lambda k: [nT.val[k]]))

    def lin_b(c):
        o, n, oT, nT, g, MC = parts(c)
        return implies(case_b(c), forall_key(lambda k: implies(nT.dom[k], mv.TV(nT.val[k]).tracked_value == g * MC.val[k]),
                                             pats=lambda k: [nT.val[k]]))

    # the antecedents of the two msum_linear instances, literally (so that the lemma fires by modus ponens)
    def pointwise_a(c):
        return implies(case_a(c), lem_a(c).arg(0))

    def pointwise_b(c):
        return implies(case_b(c), lem_b(c).arg(0))

    def sums(c):
        return land(implies(case_a(c), lem_a(c).arg(1)), implies(case_b(c), lem_b(c).arg(1)))

    def chain_total(c):
        o, n, oT, nT, g, MC = parts(c)
        lossf, y = o._loss_function, c.a.y_i
        return implies(explained(c), lemmas.msum_dv(NumDict, MC.dom, MC.val) ==
                       LOSS(lossf, y, n.marginal_prediction.t) - LOSS(lossf, y, MODEL(o._model_function, c.a.x_i.t)))

    def loss_steps(c):
        o, n, oT, nT, g, MC = parts(c)
        lossf, y = o._loss_function, c.a.y_i
        return implies(explained(c), land(
            n._marginal_loss_tracker.tracked_value == o._marginal_loss_tracker.tracked_value +
            g * (LOSS(lossf, y, n.marginal_prediction.t) - o._marginal_loss_tracker.tracked_value),
            n._model_loss_tracker.tracked_value == o._model_loss_tracker.tracked_value +
            g * (LOSS(lossf, y, MODEL(o._model_function, c.a.x_i.t)) - o._model_loss_tracker.tracked_value)))

    def first_name(c):
        names = c.old.feature_names
        return names_set(names)(names.arr[0])

    def old_eff(c):
        o, n, oT, nT, g, MC = parts(c)
        return implies(first_name(c), land(imp_sum(o) == o._marginal_loss_tracker.tracked_value - o._model_loss_tracker.tracked_value,
                    implies(forall_key(lambda k: lnot(oT.dom[k])),
                            land(o._marginal_loss_tracker.tracked_value == 0, o._model_loss_tracker.tracked_value == 0))))
    def eff_final(c):
        return CLASSES['Explainer'].invariant['Eff'](c.new)

    def kind_sage(c):
        return land(c.new.kind == 1, c.old.kind == 1, first_name(c),
                    lor(c.old.seen_samples >= 1, land(c.old.seen_samples == 0, _estimates_unchanged(c))))
    return _EFF_STEPS(locals())


def _EFF_STEPS(f):
    return [('first_name', f['first_name']), ('dom_names', f['dom_names']), ('gains', f['gains']), ('proj_k', f['proj_k']), ('lin_a', f['lin_a']), ('lin_b', f['lin_b']),
            ('pointwise_a', f['pointwise_a'], ['proj_k', 'lin_a']), ('pointwise_b', f['pointwise_b'], ['proj_k', 'lin_b']),
            ('sums', f['sums']), ('chain_total', f['chain_total']), ('loss_steps', f['loss_steps']), ('old_eff', f['old_eff']),
            ('kind_sage', f['kind_sage']),
            ('eff_final', f['eff_final'], ['dom_names', 'sums', 'chain_total', 'loss_steps', 'old_eff', 'kind_sage'])]


fn('IncrementalSage.explain_one', F + 'sage/incremental.py', self_cls='Explainer', params=_explain_params,
   cuts={'Imputer.impute': _cut_last_subset_empty, 'MultiValueTracker.update': _cut_squares_nonneg},
   exit_cuts=_eff_steps(),
   requires=dict(_explain_requires(), kind=lambda c: c.old.kind == 1),
   entry_lemmas=lambda c: tr.reveal_upd_parts(['lo0', 'family', 'inv', 'count', 'lin']),
   lemmas=lambda c: _eff_lemmas(c),
   ret=NumDict, local_types={'marginal_contributions': NumDict},
   modifies=['_importance_trackers', '_variance_trackers', 'seen_samples', '_storage', '_marginal_loss_tracker',
             '_model_loss_tracker', '_marginal_prediction_tracker', 'marginal_prediction'],
   raises={'CallbackError': {'post': {'estimates_untouched': _estimates_unchanged}}},
   ghost_out={'PERM': (KeyList, lambda c: _local(c, 'permutation_chain', KeyList) if c.run.last_loop is not None else KeyList.empty()),
              'PRD': (PredListDict, lambda c: c.run.last_loop.g.PRD.t if c.run.last_loop is not None else PredListDict.empty()),
              'LS': (NumList, lambda c: c.run.last_loop.g.LS.t if c.run.last_loop is not None else NumList.empty()),
              'MC': (NumDict, lambda c: _local(c, 'marginal_contributions', NumDict)),
              'VARS': (NumDict, lambda c: _local(c, 'variances', NumDict))},
   counts={'storage_update': lambda c: ite(c.a.update_storage, 1, 0)},
   body_ensures={
       # C04/D1: exactly one permutation per explained observation, over the complete feature-name list, used in order
       'one_full_permutation': lambda c: implies(c.old.seen_samples >= 1, land(
           c.added('np.random.permutation') == 1, *[_perm_used(c, e) for e in c.events if e.get('prim') == 'np.random.permutation'])),
   },
   ensures={
       'chain': _sage_chain, 'trackers': _sage_trackers, 'importance_step': _sage_importance, 'variance_step': _sage_variance,
       'first_only_seeds': lambda c: implies(c.old.seen_samples == 0, land(_estimates_unchanged(c), c.added('model') == 0,
                                                                           c.added('loss') == 0, c.added('impute') == 0)),
       'seen': lambda c: c.new.seen_samples == c.old.seen_samples + 1,
       'budget': lambda c: implies(c.old._imputer.kind == 1, c.added('model') == ite(
           c.old.seen_samples == 0, 0, 1 + c.old.feature_names.n * _n_eff(c))),
       'impute_calls': lambda c: c.added('impute') == ite(c.old.seen_samples == 0, 0, c.old.feature_names.n),
       'storage_last': _storage_last,
       'result_is_property': lambda c: c.res.t == pure_call('Explainer.importance_values', c.new).t,
       'args_unchanged': lambda c: land(c.a_new.x_i.t == c.a.x_i.t, c.a_new.y_i == c.a.y_i),
   },
   loops=[loop(
       counters=['impute', 'model', 'loss'],
       ghosts={
           'PRD': (PredListDict, lambda l: PredListDict.empty(),
                   lambda l: PredListDict.mk(z3.Store(l.g.PRD.dom, pack_key(l.elem), True),
                                             z3.Store(l.g.PRD.val, pack_key(l.elem), _impute_calls(l.body_events)[-1]['res'].t))),
           'LS': (NumList, lambda l: NumList.mk(z3.IntVal(1), z3.Store(NumList.arr(NumList.empty()), 0, l.v.sample_loss)),
                  lambda l: NumList.mk(l.g.LS.n + 1, z3.Store(l.g.LS.arr, l.g.LS.n, l.v.sample_loss))),
       },
       inv={
           # the chain is a rearrangement of the feature names: every name occurs, none twice
           'perm_onto': lambda l: land(l.v.permutation_chain.n == l.self.feature_names.n, forall_key(
               lambda k: implies(names_set(l.self.feature_names)(k), exists_int(
                   lambda j: land(0 <= j, j < l.v.permutation_chain.n, l.v.permutation_chain.arr[j] == k))))),
           'perm_distinct': lambda l: forall_int(lambda a: forall_int(
               lambda b: implies(land(0 <= a, a < b, b < l.v.permutation_chain.n),
                                 l.v.permutation_chain.arr[a] != l.v.permutation_chain.arr[b]))),
           'perm_names': lambda l: forall_int(lambda j: implies(land(0 <= j, j < l.v.permutation_chain.n),
                                                                names_set(l.self.feature_names)(l.v.permutation_chain.arr[j]))),
           'remaining': lambda l: forall_key(
               lambda k: l.v.features_not_in_s.dom[k] == land(names_set(l.self.feature_names)(k),
                                                              lnot(_perm_before(l.v.permutation_chain, l.i)(k))),
               pats=lambda k: [l.v.features_not_in_s.dom[k]]),
           'contrib_dom': lambda l: forall_key(
               lambda k: l.v.marginal_contributions.dom[k] == _perm_before(l.v.permutation_chain, l.i)(k),
               pats=lambda k: [l.v.marginal_contributions.dom[k]]),
           # telescoping: the credits so far add up to (loss fed to the marginal-loss tracker) - (current loss)
           'telescoping': lambda l: lemmas.msum_dv(NumDict, l.v.marginal_contributions.dom, l.v.marginal_contributions.val)
           == l.entry.sample_loss - l.v.sample_loss,
           'chain': lambda l: land(
               l.g.LS.n == l.i + 1, l.g.LS.arr[0] == l.entry.sample_loss, l.g.LS.arr[l.i] == l.v.sample_loss,
               forall_int(lambda j: implies(land(0 <= j, j < l.i), land(
                   l.g.PRD.dom[l.v.permutation_chain.arr[j]],
                   l.g.LS.arr[j + 1] == LOSS(l.self._loss_function, l.a.y_i, MEANOUT(l.g.PRD.val[l.v.permutation_chain.arr[j]])),
                   l.v.marginal_contributions.val[l.v.permutation_chain.arr[j]] == l.g.LS.arr[j] - l.g.LS.arr[j + 1])))),
           # after the last feature nothing is imputed: the chain has reached the model's own loss
           'tail': lambda l: implies(land(l.i >= 1, l.i == l.n), l.v.sample_loss ==
                                     LOSS(l.self._loss_function, l.a.y_i, MODEL(l.self._model_function, l.a.x_i.t))),
           'calls': lambda l: land(l.cnt('impute') == l.entry_cnt('impute') + l.i,
                                   implies(l.self._imputer.kind == 1, l.cnt('model') == l.entry_cnt('model') + l.i * _n_loc(l))),
           'frame': lambda l: land(l.v.x_i.t == l.a.x_i.t, l.v.permutation_chain.t == l.entry.permutation_chain.t),
       },
       body={'complement_subset': _subset_is_complement})])
