"""Contracts for ixai/storage: BaseStorage, BatchStorage, IntervalStorage, SequenceStorage, ReservoirStorage,
UniformReservoirStorage, GeometricReservoirStorage.

One record type `Storage` models all list-backed storages (ghost `kind`: 0 batch, 1 interval/sequence,
2 uniform reservoir, 3 geometric reservoir, 4 unknown user storage).  Ghost state: `seen` (number of
updates), the stream history `sx`, `sy` (index -> instance / target) and `ids`, the arrival number of the
observation held in each slot - a mirror of `_storage_x`: every append / item store / popleft on the real
container is mirrored into `ids` by the engine (no edit of the repository).
"""
import z3
from pyvc.spec import *
from pyvc.pylib import InstT, EXP, LOG, FLOOR

F = 'ixai/storage/'
XList = TList(InstT)
YList = TList(TVal)
IdList = TList(TInt)

KIND = {'batch': 0, 'interval': 1, 'uniform': 2, 'geometric': 3, 'other': 4}


def _cap_ok(s):
    n = s._storage_x.n
    return ite(s.kind == 0, n == s.seen, ite(lor(s.kind == 1, s.kind == 2, s.kind == 3),
                                             n == ite(s.seen < s.size, s.seen, s.size), n >= 0))


cls('Storage', file=F + 'base.py', opaque_inv=True,
    fields={'_storage_x': XList, '_storage_y': YList, 'store_targets': TBool, 'size': TInt,
            'stored_samples': TInt, '_algo_wt': TNum, '_algo_l_counter': TNum, 'constant_probability': TNum},
    optional=['store_targets', 'size', 'stored_samples', '_algo_wt', '_algo_l_counter', 'constant_probability'],
    ghost={'kind': TInt, 'seen': TInt, 'ids': IdList, 'sx': TArr(TInt, InstT), 'sy': TArr(TInt, TVal)},
    invariant={
        'seen_nonneg': lambda s: s.seen >= 0,
        'kind_range': lambda s: land(0 <= s.kind, s.kind <= 4),
        'size_pos': lambda s: implies(lor(s.kind == 1, s.kind == 2, s.kind == 3), s.size >= 1),
        'ids_len': lambda s: s.ids.n == s._storage_x.n,
        # number stored = min(seen, capacity)
        'count': _cap_ok,
        # each arrival at most once, only observed data
        'ids_range': lambda s: forall_int(lambda i: implies(land(0 <= i, i < s.ids.n),
                                                            land(0 <= s.ids.arr[i], s.ids.arr[i] < s.seen)),
                                          pats=lambda i: [s.ids.arr[i]]),
        'ids_distinct': lambda s: forall_int(lambda i: forall_int(
            lambda j: implies(land(0 <= i, i < j, j < s.ids.n), s.ids.arr[i] != s.ids.arr[j]))),
        'xs_observed': lambda s: forall_int(lambda i: implies(land(0 <= i, i < s._storage_x.n),
                                                              s._storage_x.arr[i] == s.sx[s.ids.arr[i]]),
                                            pats=lambda i: [s._storage_x.arr[i]]),
        # targets aligned with instances, or none kept
        'ys_aligned': lambda s: implies(s.kind != 4, ite(
            s.store_targets,
            land(s._storage_y.n == s._storage_x.n,
                 forall_int(lambda i: implies(land(0 <= i, i < s._storage_y.n), s._storage_y.arr[i] == s.sy[s.ids.arr[i]]),
                            pats=lambda i: [s._storage_y.arr[i]])),
            s._storage_y.n == 0)),
        # sharper views
        'batch_order': lambda s: implies(s.kind == 0, forall_int(
            lambda i: implies(land(0 <= i, i < s.ids.n), s.ids.arr[i] == i), pats=lambda i: [s.ids.arr[i]])),
        'interval_order': lambda s: implies(s.kind == 1, forall_int(
            lambda i: implies(land(0 <= i, i < s.ids.n), s.ids.arr[i] == s.seen - s.ids.n + i),
            pats=lambda i: [s.ids.arr[i]])),
        'uniform_counter': lambda s: implies(s.kind == 2, s.stored_samples == s.seen),
    })

_mirror = {'_storage_x': ('ids', lambda c: c.old.seen)}


def _hist_step(c):
    return {'seen': c.old.seen + 1, 'sx': z3.Store(c.old.sx, c.old.seen, c.a.x.t), 'sy': z3.Store(c.old.sy, c.old.seen, c.a.y)}


def _newest_if(c, cond):
    """under cond the new observation is stored (in some slot, with its arrival number)"""
    n = c.new
    return implies(cond, exists_int(lambda i: land(0 <= i, i < n._storage_x.n, n.ids.arr[i] == c.old.seen,
                                                   n._storage_x.arr[i] == c.a.x.t)))


_common_update = {
    'args_unchanged': lambda c: c.a_new.x.t == c.a.x.t,
}

# interface contract (what an explainer / imputer may assume of any storage)
fn('Storage.update', params={'x': InstT, 'y': TVal}, self_cls='Storage', ensures=dict(_common_update),
   ghost_update=_hist_step, modifies=['_storage_x', '_storage_y', 'stored_samples', '_algo_wt', '_algo_l_counter', 'ids'],
   may_fail=True, assume_only=True, counts={'storage_update': lambda c: 1},
   notes='interface; proved for the five concrete update methods')

fn('Storage.__len__', F + 'base.py', src_cls='BaseStorage', self_cls='Storage', pure=True, ret=TInt,
   ensures={'len': lambda c: c.res == c.old._storage_x.n})
fn('Storage.get_data', F + 'base.py', src_cls='BaseStorage', self_cls='Storage', pure=True, ret=TTuple(XList, YList),
   may_fail=True,
   ensures={'view': lambda c: land(c.res[0].t == c.old._storage_x.t, c.res[1].t == c.old._storage_y.t)})
fn('IntervalStorage.get_data', F + 'interval_storage.py', self_cls='Storage', pure=True, ret=TTuple(XList, YList),
   ensures={'view': lambda c: land(c.res[0].t == c.old._storage_x.t, c.res[1].t == c.old._storage_y.t)})


def _init_ghost(kind):
    def g(c):
        return {'kind': kind, 'seen': 0, 'ids': IdList.empty(),
                'sx': z3.Const('sx0', TArr(TInt, InstT).sort()), 'sy': z3.Const('sy0', TArr(TInt, TVal).sort())}
    return g


_empty = lambda c: land(c.new._storage_x.n == 0, c.new._storage_y.n == 0)

# ---- BatchStorage ----------------------------------------------------------------------------------
fn('BatchStorage.__init__', F + 'batch_storage.py', kind='init', self_cls='Storage', params={'store_targets': TBool},
   ghost_update=_init_ghost(0),
   ensures={'empty': _empty, 'cfg': lambda c: c.new.store_targets == c.a.store_targets})
fn('BatchStorage.update', F + 'batch_storage.py', self_cls='Storage', params={'x': InstT, 'y': TVal},
   requires={'kind': lambda c: c.old.kind == 0}, implements='Storage.update', mirrors=_mirror,
   ensures={'newest_last': lambda c: land(c.new._storage_x.n == c.old._storage_x.n + 1,
                                          c.new._storage_x.arr[c.old._storage_x.n] == c.a.x.t)},
   ghost_update=_hist_step, modifies=['_storage_x', '_storage_y', 'ids'])

# ---- IntervalStorage / SequenceStorage ---------------------------------------------------------------
fn('IntervalStorage.__init__', F + 'interval_storage.py', kind='init', self_cls='Storage',
   params={'size': TInt, 'store_targets': TBool},
   requires={'size_pos': lambda c: c.a.size >= 1}, ghost_update=_init_ghost(1),
   ensures={'empty': _empty, 'cfg': lambda c: land(c.new.store_targets == c.a.store_targets, c.new.size == c.a.size)})
fn('SequenceStorage.__init__', F + 'sequence_storage.py', kind='init', self_cls='Storage', params={'store_targets': TBool},
   ghost_update=_init_ghost(1),
   ensures={'empty': _empty, 'cfg': lambda c: land(c.new.store_targets == c.a.store_targets, c.new.size == 1)})
fn('IntervalStorage.update', F + 'interval_storage.py', self_cls='Storage', params={'x': InstT, 'y': TVal},
   requires={'kind': lambda c: c.old.kind == 1}, implements='Storage.update', mirrors=_mirror,
   ensures={'newest_last': lambda c: land(c.new._storage_x.n >= 1,
                                          c.new._storage_x.arr[c.new._storage_x.n - 1] == c.a.x.t)},
   ghost_update=_hist_step, modifies=['_storage_x', '_storage_y', 'ids'])

# ---- GeometricReservoirStorage -----------------------------------------------------------------------
fn('GeometricReservoirStorage.__init__', F + 'geometric_reservoir_storage.py', kind='init', self_cls='Storage',
   params={'size': TInt, 'constant_probability': TOpt(TNum), 'store_targets': TBool},
   requires={'size_pos': lambda c: c.a.size >= 1}, ghost_update=_init_ghost(3),
   ensures={'empty': _empty,
            'cfg': lambda c: land(c.new.store_targets == c.a.store_targets, c.new.size == c.a.size),
            # the configured constant probability, default 1/size
            'prob': lambda c: c.new.constant_probability == (c.a.constant_probability if c.a.has('constant_probability')
                                                             and not _is_none(c.a, 'constant_probability') else 1 / R(c.a.size))})


def _is_none(ns, name):
    from pyvc.sym import NONE
    return ns._d.get(name) is NONE


def _draws(c, prim):
    if prim == 'random.randrange':       # any uniform integer draw (randrange(n) / randint(0, n-1)); 'arg' is the number of outcomes
        return [dict(e, arg=e['hi'] - e['lo'] + 1, value=e['value'] - e['lo']) for e in c.events
                if e['kind'] == 'draw' and e.get('uniform_int')]
    return [e for e in c.events if e['kind'] == 'draw' and e['prim'] == prim]


def _geo_law(c):
    """full reservoir: exactly one acceptance draw u; replaced if u < p, kept if u > p (the boundary u == p has
    probability zero: `<=` and `<` are both fine); then one slot draw over the whole range, x (and y) written at that slot
    and nowhere else; fill phase: appended, no draw"""
    o, n = c.old, c.new
    us, rs = _draws(c, 'random.random'), _draws(c, 'random.randrange')
    full = o._storage_x.n >= o.size
    if not us:
        return land(lnot(full), len(rs) == 0, n._storage_x.n == o._storage_x.n + 1,
                    n._storage_x.arr[o._storage_x.n] == c.a.x.t)
    if len(us) != 1 or len(rs) > 1:
        return False
    u = us[0]['value']
    if not rs:
        return land(full, u >= o.constant_probability, n._storage_x.t == o._storage_x.t, n._storage_y.t == o._storage_y.t)
    r = rs[0]
    return land(full, u <= o.constant_probability, r['arg'] == o.size, n._storage_x.n == o._storage_x.n,
                n._storage_x.arr == z3.Store(o._storage_x.arr, r['value'], c.a.x.t),
                implies(o.store_targets, n._storage_y.arr == z3.Store(o._storage_y.arr, r['value'], c.a.y)))


fn('GeometricReservoirStorage.update', F + 'geometric_reservoir_storage.py', self_cls='Storage',
   params={'x': InstT, 'y': TVal},
   requires={'kind': lambda c: c.old.kind == 3}, implements='Storage.update', mirrors=_mirror,
   body_ensures={'inclusion_law': _geo_law},
   ensures={# p = 1: every new observation is stored (TreeStorage relies on it)
            'p_one_stores': lambda c: _newest_if(c, c.old.constant_probability >= 1),
            'p_const': lambda c: c.new.constant_probability == c.old.constant_probability},
   ghost_update=_hist_step, modifies=['_storage_x', '_storage_y', 'ids'])

# ---- UniformReservoirStorage (Algorithm L) -------------------------------------------------------------
def _algoL_init(c):
    """W0 = exp(log(u0)/k); next0 = k + floor(log(u1)/log(1 - W0)) + 1 with two distinct draws"""
    us = _draws(c, 'random.random')
    if len(us) != 2:
        return False
    k = R(c.a.size)
    alts = []
    for a, b in ((0, 1), (1, 0)):
        ua, ub = us[a]['value'], us[b]['value']
        W0 = EXP(LOG(ua) / k)
        alts.append(land(c.new._algo_wt == W0, c.new._algo_l_counter == k + FLOOR(LOG(ub) / LOG(1 - W0)) + 1))
    return lor(*alts)


fn('UniformReservoirStorage.__init__', F + 'uniform_reservoir_storage.py', kind='init', self_cls='Storage',
   params={'size': TInt, 'store_targets': TBool},
   requires={'size_pos': lambda c: c.a.size >= 1}, ghost_update=_init_ghost(2),
   ensures={'empty': _empty,
            'cfg': lambda c: land(c.new.store_targets == c.a.store_targets, c.new.size == c.a.size,
                                  c.new.stored_samples == 0),
            }, body_ensures={'algoL_init': _algoL_init})


def _algoL_step(c):
    """Algorithm L (Li 1994) as a function of the draws: with i' = i + 1
       fill phase (i' <= k): append, no draw, (W, next) unchanged;
       i' > k and next != i': nothing changes, no draw;
       i' > k and next == i': slot = randrange(k), R[slot] = x, W' = W * exp(log(u_a)/k),
                              next' = next + floor(log(u_b)/log(1 - W')) + 1   -- the skip uses the UPDATED weight"""
    o, n = c.old, c.new
    us, rs = _draws(c, 'random.random'), _draws(c, 'random.randrange')
    i1 = o.stored_samples + 1
    k = R(o.size)
    same_state = land(n._algo_wt == o._algo_wt, n._algo_l_counter == o._algo_l_counter)
    if not us and not rs:
        return land(n.stored_samples == i1, same_state,
                    ite(i1 <= o.size,
                        land(n._storage_x.n == o._storage_x.n + 1, n._storage_x.arr[o._storage_x.n] == c.a.x.t),
                        land(o._algo_l_counter != R(i1), n._storage_x.t == o._storage_x.t,
                             n._storage_y.t == o._storage_y.t)))
    if len(us) != 2 or len(rs) != 1:
        return False
    r = rs[0]
    alts = []
    for a, b in ((0, 1), (1, 0)):
        ua, ub = us[a]['value'], us[b]['value']
        W1 = o._algo_wt * EXP(LOG(ua) / k)
        alts.append(land(n._algo_wt == W1, n._algo_l_counter == o._algo_l_counter + FLOOR(LOG(ub) / LOG(1 - W1)) + 1))
    return land(n.stored_samples == i1, i1 > o.size, o._algo_l_counter == R(i1), r['arg'] == o.size,
                n._storage_x.n == o._storage_x.n,
                n._storage_x.arr == z3.Store(o._storage_x.arr, r['value'], c.a.x.t),
                implies(o.store_targets, n._storage_y.arr == z3.Store(o._storage_y.arr, r['value'], c.a.y)),
                lor(*alts))


fn('UniformReservoirStorage.update', F + 'uniform_reservoir_storage.py', self_cls='Storage',
   params={'x': InstT, 'y': TVal},
   requires={'kind': lambda c: c.old.kind == 2}, implements='Storage.update', mirrors=_mirror,
   body_ensures={'algoL_step': _algoL_step},
   ghost_update=_hist_step,
   modifies=['_storage_x', '_storage_y', 'stored_samples', '_algo_wt', '_algo_l_counter', 'ids'])


# isinstance on the union record: decided by the ghost kind
CLASSES['Storage'].isinstance_map = {
    'IntervalStorage': lambda s: s.kind == 1, 'SequenceStorage': lambda s: s.kind == 1, 'BatchStorage': lambda s: s.kind == 0,
    'UniformReservoirStorage': lambda s: s.kind == 2, 'GeometricReservoirStorage': lambda s: s.kind == 3,
    'BaseStorage': lambda s: True,
}
