"""Replay of a failed obligation on the REAL code from a REACHABLE state.

A failed obligation comes with a solver model of an arbitrary pre-state that satisfies the contract's assumed invariants -
which need not be reachable (after a representation change it typically is not).  Here the same obligation is re-generated
with the pre-state pinned to concrete states built through the library's own API (pyvc.diffcases); numeric arguments stay
symbolic, so the solver chooses the failing argument values and the outcomes of the random draws.  A hit is then re-played:
the real method is run natively on that state with those arguments and with the draws scripted to the model's values, and
the engine-vs-CPython admission check (pyvc.diffcheck) must accept that execution on the very path the obligation fails
on.  Only then is the obligation reported as confirmed on the real code - with the concrete call as the failing input.

Loop-free paths only (after a loop the state is the loop invariant's, not the concrete one)."""
import copy
import random as pyrandom
from fractions import Fraction

import z3

from . import sym, spec, frontend, symex, verify, diffcheck
from .sym import SNum, NONE, TInt, TNum, pack
from .spec import FUNCS, TOpt
from .symex import Run, Explorer, Options, PathEnd, Unsupported, locate


class _Replay:
    """random.random / randrange / randint return the scripted values in order, then fall back to a seeded generator"""

    def __init__(self, values):
        self.values = list(values)
        self.rng = pyrandom.Random(0)

    def __enter__(self):
        self.saved = (pyrandom.random, pyrandom.randrange, pyrandom.randint)

        def nxt(default):
            return self.values.pop(0) if self.values else default()
        pyrandom.random = lambda: float(nxt(self.rng.random))
        pyrandom.randrange = lambda *a: int(nxt(lambda: self.rng.randrange(*a)))
        pyrandom.randint = lambda a, b: int(nxt(lambda: self.rng.randint(a, b)))
        return self

    def __exit__(self, *a):
        pyrandom.random, pyrandom.randrange, pyrandom.randint = self.saved


def _num(model, t):
    v = model.eval(t, model_completion=True)
    if z3.is_int_value(v):
        return v.as_long()
    if z3.is_rational_value(v):
        return Fraction(v.numerator_as_long(), v.denominator_as_long())
    if z3.is_algebraic_value(v):
        a = v.approx(20)
        return Fraction(a.numerator_as_long(), a.denominator_as_long())
    raise Unsupported("non-numeric model value")


def _same_obligation(o, target_id):
    return o.id.split('@')[0] == target_id.split('@')[0]


def _explore(fs, fdef, mod, opts_kw, pin, want_id):
    """all (run, obligation) pairs with the wanted id on loop-free paths, pre-state pinned by pin(run)"""
    ex = Explorer()
    out = []
    while True:
        ex.start()
        sym.reset_fresh()
        run = Run(fs, fdef, mod, ex, Options(extra={'after_setup': pin}, **opts_kw))
        rep = verify.FunctionReport(fs.key)
        try:
            verify.run_path(run, fs, fdef, rep)
        except PathEnd:
            pass
        except Unsupported:
            return out
        if not getattr(run, 'last_loop', None):
            for o in run.obligations:
                if _same_obligation(o, want_id) and not o.expect_sat:
                    out.append((run, o))
        if not ex.backtrack() or ex.paths > 120:
            break
    return out


def confirm(fs_key, ob_id, opts_kw=None, seed=0, budget_s=90):
    """a concrete failing call of the real code for the failed obligation `ob_id` of function fs_key, or None"""
    import time
    from . import diffcases
    opts_kw = dict(opts_kw or {})
    opts_kw.pop('extra', None)
    fs = FUNCS[fs_key]
    if fs.kind not in ('method', 'property'):
        return None
    try:
        fdef, mod = locate(fs)
    except Unsupported:
        return None
    t0 = time.time()
    name = fs.src_name or fs.key.split('.')[-1].split('#')[0]
    cases = [(k, m) for k, m in diffcases.cases(seed) + diffcases.explainer_cases(seed) if k == fs_key]
    for ci, (_, make) in enumerate(cases):
        if time.time() - t0 > budget_s:
            break
        try:
            obj, args = make()
        except Exception:   # noqa
            continue
        pre_obj = copy.deepcopy(obj)
        num_params = [p for p, t in fs.params.items() if (t.t if isinstance(t, TOpt) else t) in (TNum, TInt) and p in args
                      and isinstance(args[p], (int, float)) and not isinstance(args[p], bool)]
        I = diffcheck.Interner()

        def pin(run, symbolic=True, args=args):
            pre = diffcheck.obj_represents(run.self_obj, pre_obj, I, True)
            for p, v in args.items():
                if symbolic and p in num_params:
                    continue
                sv = run.env.get(p)
                if sv is None or sv is NONE or v is None:
                    continue
                t = fs.params[p]
                pre += diffcheck.represents(t.t if isinstance(t, TOpt) else t, pack(sv), v, I, True)
            run.pc += pre
        try:
            hits = _explore(fs, fdef, mod, opts_kw, pin, ob_id)
        except Exception:   # noqa
            continue
        for run, o in hits:
            s = z3.Solver()
            s.set('timeout', 8000)
            for h in o.hyps:
                s.add(h)
            for f in I.facts:
                s.add(f)
            s.add(z3.Not(o.goal))
            if s.check() != z3.sat:
                continue
            m = s.model()
            try:
                new_args = dict(args)
                for p in num_params:
                    v = _num(m, pack(run.args0[p]))
                    new_args[p] = int(v) if isinstance(v, int) else float(v)
                draws = []
                for e in run.events:
                    if e.get('kind') == 'draw' and e.get('prim') in ('random.random', 'random.randrange', 'random.randint'):
                        v = _num(m, e['value'])
                        draws.append(float(v) if e['prim'] == 'random.random' else int(v))
            except Unsupported:
                continue
            # replay on the real code: same reachable state, the solver's arguments and draws
            nat = copy.deepcopy(pre_obj)
            with _Replay(draws):
                try:
                    if fs.kind == 'property':
                        res, exc = getattr(nat, name), None
                    else:
                        res, exc = getattr(nat, name)(**copy.deepcopy(new_args)), None
                except Exception as ex:   # noqa
                    res, exc = None, type(ex).__name__
            # the engine must admit exactly this execution (pre-state, arguments, draws, outcome, post-state) on a path where
            # the obligation fails: re-generate the obligation with EVERYTHING concrete
            I2 = diffcheck.Interner()

            def pin2(run2):
                pin(run2, symbolic=False, args=new_args)
            hits2 = _explore(fs, fdef, mod, opts_kw, lambda r: (r.pc.extend(diffcheck.obj_represents(r.self_obj, pre_obj, I2, True)),
                                                                 [r.pc.extend(diffcheck.represents(
                                                                     fs.params[p].t if isinstance(fs.params[p], TOpt) else fs.params[p],
                                                                     pack(r.env[p]), v, I2, True))
                                                                  for p, v in new_args.items()
                                                                  if r.env.get(p) is not None and r.env.get(p) is not NONE and v is not None]),
                             ob_id)
            for run2, o2 in hits2:
                facts = list(o2.hyps) + I2.facts + list(symex.str_distinct_axioms())
                ev = [e for e in run2.events if e.get('kind') == 'draw' and e.get('prim') in ('random.random', 'random.randrange', 'random.randint')]
                if len(ev) != len(draws):
                    continue
                for e, v in zip(ev, draws):
                    facts.append(e['value'] == (diffcheck._real(v) if isinstance(v, float) else int(v)))
                if diffcheck._check(facts + [z3.Not(o2.goal)]) != 'sat':
                    continue
                # the native execution must be admitted on this path (outcome, post-state, result) AND must REFUTE the clause:
                # facts + native post-state + native result + clause is unsatisfiable.  (A clause that is merely unprovable
                # because a library function is abstract - an uninterpreted sum, np.nanstd ... - is not refuted.)
                post = []
                try:
                    post = diffcheck.obj_represents(run2.self_obj, nat, I2, False)
                    rv = getattr(run2, 'result_value', None)
                    if not exc and fs.ret is not None and rv is not None and rv is not NONE and not fs.returns_self and hasattr(rv, 't'):
                        rt = pack(rv, fs.ret)
                        typ = fs.ret if rt.sort() == fs.ret.sort() else getattr(rv, 'typ', None)
                        if typ is not None and typ.sort() == rt.sort():
                            post += diffcheck.represents(typ, rt, res, I2, False)
                except Unsupported:
                    pass
                if o2.meta.get('kind') == 'no_exception':
                    if not exc or exc not in o2.id:
                        continue
                else:
                    if exc and o2.meta.get('kind') in ('post', 'iface', 'inv', 'frame'):
                        continue        # the obligation is about a normal exit, the native run raised
                    if diffcheck._check(facts + post) == 'unsat':
                        continue        # not the execution CPython performs
                    if diffcheck._check(facts + post + [o2.goal]) != 'unsat':
                        continue        # not refuted by the real execution
                return {'reachable_state': 'built through the library API (pyvc.diffcases case %d of %s)' % (ci, fs_key),
                        'pre_state': {k: repr(v)[:200] for k, v in vars(pre_obj).items()},
                        'arguments': {k: repr(v)[:120] for k, v in new_args.items()}, 'draws': draws,
                        'native_outcome': ('raised ' + exc) if exc else ('returned ' + repr(res)[:200]),
                        'post_state': {k: repr(v)[:200] for k, v in vars(nat).items()},
                        'obligation': o2.id}
    return None
