"""Engine-vs-CPython differential check (encoder soundness guard).

For a function under contract and a CONCRETE reachable call (object built through the library's own API, concrete
arguments, scripted random draws) the real code is run natively, and the symbolic executor is run on the same source with
the pre-state constrained to the concrete values.  Then

  (a) at least one explored path must ADMIT the native execution: its outcome kind agrees (return / exception class) and
      path condition + assumed invariants / requires + concrete pre-state + scripted draws + native post-state (fields,
      result) is not refuted.  If every path is refuted, the encoding - statement semantics, a library contract, or an
      assumed invariant - excludes an execution that CPython performs: FAIL;
  (b) paths other than the native one need not be refuted by the pre-state alone (library functions may be abstract);
  (c) for loop-free paths it is recorded whether the post-state is DETERMINED: path condition + NOT(post-state = native
      post-state) is refuted (numbers up to a relative tolerance - the engine computes in exact reals, CPython in binary64);
      where the engine abstracts a library function as uninterpreted (np.nanmean, sqrt ...) the state is admitted but not
      determined - counted as `abstract`, not a failure.

Only `unsat` answers are definitive, `unknown` is counted as inconclusive - a differential FAILURE is always backed by a
refutation.  A failure is a CHECKER error (the engine or a contract misrepresents Python), never a property violation.
"""
import copy
import math
import random as pyrandom
from fractions import Fraction

import z3

from . import sym, spec, frontend, symex, verify
from .sym import (SObj, SNum, SBool, SKey, SVal, SDict, SSet, SList, STuple, NONE, TInt, TNum, TNumK, TDict, TSet, TList, TTuple,
                  TObj, TNDArray, TOutArr, pack, snapshot, SV)
from .spec import FUNCS, CLASSES, TOpt
from .symex import Run, Explorer, Options, PyRaise, ReturnSig, PathEnd, Unsupported, locate

TOL = 1e-9


class Interner:
    def __init__(self):
        self.vals = {}
        self.facts = []

    def key(self, v):
        if isinstance(v, str):
            return spec.str_key(v)
        if isinstance(v, bool):
            raise Unsupported("bool key")
        if isinstance(v, (int, float)):
            return symex.NumKeyF(z3.RealVal(str(Fraction(v))))
        raise Unsupported(f"key {v!r}")

    def val(self, v):
        k = (type(v).__name__, repr(v))
        if k not in self.vals:
            c = z3.Const(f"dv!{len(self.vals)}", sym.ValS)
            for o in self.vals.values():
                self.facts.append(c != o)
            self.vals[k] = c
        return self.vals[k]


def _real(v):
    return z3.RealVal(str(Fraction(v)))


def _approx(t, v):
    if isinstance(v, bool):
        v = int(v)
    if isinstance(v, int) or (isinstance(v, float) and v == int(v) and abs(v) < 2 ** 50):
        pass
    eps = TOL * (1 + abs(float(v)))
    return z3.And(t >= _real(float(v) - eps), t <= _real(float(v) + eps))


def represents(typ, term, v, I, exact):
    """constraints: the packed term `term` of type typ represents the Python value v (numbers exactly / approximately)"""
    import numpy as np
    if isinstance(typ, TOpt):
        typ = typ.t
    if typ is TInt:
        return [term == int(v)]
    if typ is TNum:
        if isinstance(v, float) and (math.isnan(v) or math.isinf(v)):
            raise Unsupported("non-finite number")
        return [term == _real(v)] if exact else [_approx(term, v)]
    if typ is TNumK:
        dt = typ.sort()
        r, isnp, fin = dt.accessor(0, 0)(term), dt.accessor(0, 1)(term), dt.accessor(0, 2)(term)
        f = bool(np.isfinite(v))
        out = [isnp == isinstance(v, np.generic), fin == f]
        if f:
            out.append(r == _real(float(v)) if exact else _approx(r, v))
        return out
    if typ is sym.TBool:
        return [term == bool(v)]
    if typ is sym.TKey:
        return [term == I.key(v)]
    if typ is sym.TVal:
        return [term == I.val(v)]
    if isinstance(typ, TList):
        out = [typ.n(term) == len(v)]
        for i, e in enumerate(v):
            out += represents(typ.e, typ.arr(term)[i], e, I, exact)
        return out
    if isinstance(typ, TDict):
        dom = z3.K(typ.k.sort(), z3.BoolVal(False))
        out = []
        for k, e in v.items():
            kt = I.key(k)
            dom = z3.Store(dom, kt, True)
            out += represents(typ.v, typ.val(term)[kt], e, I, exact)
        return [typ.dom(term) == dom] + out
    if isinstance(typ, TSet):
        dom = z3.K(typ.k.sort(), z3.BoolVal(False))
        for k in v:
            dom = z3.Store(dom, I.key(k), True)
        return [term == dom]
    if isinstance(typ, TTuple):
        out = []
        dt = typ.sort()
        for i, (t, e) in enumerate(zip(typ.ts, v)):
            out += represents(t, dt.accessor(0, i)(term), e, I, exact)
        return out
    if typ is TNDArray:
        dt = typ.sort()
        n, arr, nan = dt.accessor(0, 0)(term), dt.accessor(0, 1)(term), dt.accessor(0, 2)(term)
        out = [n == len(v)]
        for i, e in enumerate(v):
            isn = bool(np.isnan(e))
            out.append(nan[i] == isn)
            if not isn:
                out.append(arr[i] == _real(float(e)) if exact else _approx(arr[i], float(e)))
        return out
    if typ is TOutArr:
        a = np.asarray(v)
        if a.ndim > 2:
            raise Unsupported("ndim > 2")
        isstr = a.dtype.kind in 'US'
        d0 = a.shape[0] if a.ndim >= 1 else 1
        d1 = a.shape[1] if a.ndim == 2 else 1
        out = [typ.f(term, 0) == a.ndim, typ.f(term, 1) == d0, typ.f(term, 2) == d1, typ.f(term, 4) == isstr]
        if not isstr:
            for i, e in enumerate(a.flatten()):
                out.append(typ.f(term, 3)[i] == _real(float(e)) if exact else _approx(typ.f(term, 3)[i], float(e)))
        return out
    if isinstance(typ, TObj):
        out = []
        sp = typ.spec()
        for f, t in sp.fields.items():
            if not hasattr(v, f):
                continue
            fv = getattr(v, f)
            if fv is None or isinstance(t, sym.TFnRole) or callable(fv) and not isinstance(t, TObj):
                continue
            out += represents(t, typ.field(term, f), fv, I, exact)
        return out
    if isinstance(typ, sym.TFnRole):
        return []
    raise Unsupported(f"no concrete representation for type {typ}")


# documented modelling limit (DESIGN A2 "Aliasing"): the storage shared between an explainer and its imputer is two objects
# in the model; the imputer's copy is therefore not compared in the POST-state (the explainer's own `_storage` is)
SHARED_NOT_COMPARED = {('Explainer', '_imputer'): {'storage_object'}, ('BatchExplainer', '_imputer'): {'storage_object'}}


def obj_represents(o, v, I, exact, skip=()):
    """constraints for a rooted symbolic object (python-side fields)"""
    out = []
    sp = o.spec()
    for f, t in sp.fields.items():
        if f in skip:
            continue
        fv = o.getfield(f)
        if fv is None or fv is NONE:
            continue
        if not hasattr(v, f):
            continue
        nv = getattr(v, f)
        if nv is None or isinstance(t, sym.TFnRole):
            continue
        if isinstance(fv, SObj) and fv.fields is not None:
            out += obj_represents(fv, nv, I, exact, () if exact else SHARED_NOT_COMPARED.get((o.cls, f), ()))
        else:
            out += represents(t, pack(fv, t if not isinstance(t, TOpt) else t.t), nv, I, exact)
    return out


class ScriptedRandom:
    """records the draws the native run makes (real generators, seeded), to be imposed on the symbolic draws"""

    def __init__(self, seed):
        self.rng = pyrandom.Random(seed)
        self.log = []

    def __enter__(self):
        self.saved = (pyrandom.random, pyrandom.randrange, pyrandom.randint)
        pyrandom.random = lambda: self._rec('random.random', self.rng.random())
        pyrandom.randrange = lambda *a: self._rec('random.randrange', self.rng.randrange(*a))
        pyrandom.randint = lambda a, b: self._rec('random.randint', self.rng.randint(a, b))
        return self

    def _rec(self, prim, v):
        self.log.append((prim, v))
        return v

    def __exit__(self, *a):
        pyrandom.random, pyrandom.randrange, pyrandom.randint = self.saved


def _check(facts, timeout=4000):
    s = z3.Solver()
    s.set('timeout', timeout)
    for f in facts:
        s.add(f)
    r = s.check()
    if r == z3.unknown:
        # retry on the quantifier-free part: a refutation there is definitive as well
        s2 = z3.Solver()
        s2.set('timeout', timeout)
        for f in facts:
            if not symex._has_quantifier(f):
                s2.add(f)
        if s2.check() == z3.unsat:
            return 'unsat'
        return 'unknown'
    return str(r)


def diff_call(fkey, make, seed=0):
    """make() -> (native object or None, {param: value}).  Returns a dict with status ok | fail | inconclusive | unsupported"""
    fs = FUNCS[fkey]
    fdef, mod = locate(fs)
    obj, args = make()
    pre_obj = copy.deepcopy(obj)
    pre_args = copy.deepcopy(args)
    name = fs.src_name or fs.key.split('.')[-1].split('#')[0]
    with ScriptedRandom(seed) as sr:
        try:
            if fs.kind == 'init':
                C = type(obj)
                nat_obj = C.__new__(C)
                C.__init__(nat_obj, **args)
                nat_res, nat_exc = None, None
                obj = nat_obj
            elif fs.kind == 'property':
                nat_res, nat_exc = getattr(obj, name), None
            elif fs.kind in ('function', 'static'):
                nat_res, nat_exc = obj(**args), None        # make() returned the callable itself
            else:
                nat_res, nat_exc = getattr(obj, name)(**args), None
        except Exception as ex:   # noqa
            nat_res, nat_exc = None, type(ex).__name__
    draws = list(sr.log)
    I = Interner()
    ex = Explorer()
    admitted, refuted, inconclusive, notes = 0, 0, 0, []
    determined = abstract = other_outcome = refuted_post = unchecked = 0
    while True:
        ex.start()
        sym.reset_fresh()
        run = Run(fs, fdef, mod, ex, Options())
        outcome = None
        try:
            verify.setup_state(run, fs, fdef)
            pre = []
            if fs.kind in ('method', 'property') and run.self_obj is not None:
                pre += obj_represents(run.self_obj, pre_obj, I, True)
            for p, v in pre_args.items():
                sv = run.env.get(p)
                if sv is NONE or sv is None:
                    if v is not None:
                        pre.append(z3.BoolVal(False))
                    continue
                if v is None:
                    pre.append(z3.BoolVal(False))
                    continue
                t = fs.params[p]
                pre += represents(t.t if isinstance(t, TOpt) else t, pack(sv), v, I, True)
            run.pc += pre
            body = frontend.strip_docstring(fdef.body)
            run.local_types = fs.local_types
            res = NONE
            try:
                verify._exec_with_local_types(run, body)
                outcome = ('return', NONE)
            except ReturnSig as r:
                outcome = ('return', r.value)
            except PyRaise as e:
                outcome = ('raise', e.exc)
        except PathEnd:
            outcome = None
        except Unsupported as u:
            return {'function': fkey, 'status': 'unsupported', 'detail': str(u)}
        if outcome is not None:
            facts = list(run.pc) + I.facts + list(symex.str_distinct_axioms())
            # scripted draws
            ev = [e for e in run.events if e.get('kind') == 'draw' and e.get('prim') in ('random.random', 'random.randrange', 'random.randint')]
            if getattr(run, 'last_loop', None):
                pass        # draws made inside a loop are behind the loop's invariant (havoc): nothing to impose
            elif [e['prim'] for e in ev] != [p for p, _ in draws]:
                facts.append(z3.BoolVal(False))
            else:
                for e, (_, v) in zip(ev, draws):
                    facts.append(e['value'] == (_real(v) if isinstance(v, float) else int(v)))
            r0 = _check(facts)
            kind, val = outcome
            nat_kind = 'raise' if nat_exc else 'return'
            if r0 == 'unsat':
                refuted += 1
            elif kind != nat_kind or (kind == 'raise' and not symex.exc_matches(val, nat_exc) and val != nat_exc):
                other_outcome += 1          # not the path CPython took (or not refuted only because a library function is abstract)
            else:
                post = []
                try:
                    if run.self_obj is not None and fs.kind != 'function':
                        post += obj_represents(run.self_obj, obj, I, False)
                    if kind == 'return' and fs.ret is not None and isinstance(val, SV) and val is not NONE and not fs.returns_self:
                        rt = pack(val, fs.ret)
                        if rt.sort() == fs.ret.sort():
                            post += represents(fs.ret, rt, nat_res, I, False)
                        elif getattr(val, 'typ', None) is not None and val.typ.sort() == rt.sort():
                            post += represents(val.typ, rt, nat_res, I, False)      # e.g. a dict of NumPy-kind numbers
                        else:
                            raise Unsupported(f'result of sort {rt.sort()} for declared {fs.ret}')
                except Unsupported as u:
                    notes.append(str(u))
                    unchecked += 1
                    post = None
                r1 = _check(facts + post) if post is not None else 'skipped'
                if r1 == 'skipped':
                    pass
                elif r1 == 'unsat':
                    refuted_post += 1
                else:
                    admitted += 1
                    if r0 == 'unknown' or r1 == 'unknown':
                        inconclusive += 1
                    if post and not getattr(run, 'last_loop', None):
                        r2 = _check(facts + [z3.Not(z3.And(*post))])
                        if r2 == 'unsat':
                            determined += 1
                        elif r2 == 'sat':
                            abstract += 1        # a library function is abstracted (uninterpreted): admitted, not determined
        if not ex.backtrack():
            break
        if ex.paths > 200:
            break
    if admitted == 0 and unchecked:
        return {'function': fkey, 'status': 'inconclusive', 'detail': '; '.join(notes)}
    if admitted == 0:
        return {'function': fkey, 'status': 'fail', 'detail': f"no explored path admits the native execution ({refuted} refuted by the "
                f"pre-state, {other_outcome} with another outcome, {refuted_post} refuted by the native post-state): "
                f"the encoding or an assumed invariant / precondition excludes a call CPython performs; native outcome "
                f"{'raise ' + nat_exc if nat_exc else 'return'}"}
    return {'function': fkey, 'status': 'ok' if not inconclusive else 'ok (some answers unknown)', 'paths': ex.paths,
            'admitted': admitted, 'refuted': refuted, 'determined': determined, 'abstract': abstract, 'notes': notes}


# ---- runner ---------------------------------------------------------------------------------------------------------
_CASES = None


def _one(i):
    z3.set_param('warning', False)
    fk, make = _CASES[i]
    try:
        r = diff_call(fk, make)
    except Unsupported as u:
        r = {'function': fk, 'status': 'unsupported', 'detail': str(u)}
    except Exception as ex:   # noqa
        import traceback
        r = {'function': fk, 'status': 'crash', 'detail': repr(ex) + '\n' + traceback.format_exc()[-800:]}
    r['case'] = i
    return r


def run_for(function_keys=None, workers=8, seed=0, limit_per_function=None):
    """differential check of every registered concrete call of the given functions (all when None); forked workers"""
    global _CASES
    import multiprocessing as mp
    from . import diffcases
    allc = diffcases.cases(seed) + diffcases.explainer_cases(seed)
    per = {}
    sel = []
    for fk, make in allc:
        if function_keys is not None and fk not in function_keys:
            continue
        per[fk] = per.get(fk, 0) + 1
        if limit_per_function and per[fk] > limit_per_function:
            continue
        sel.append((fk, make))
    _CASES = sel
    if not sel:
        return {'cases': 0, 'functions': {}, 'failures': []}
    ctx = mp.get_context('fork')
    with ctx.Pool(min(workers, len(sel))) as pool:
        results = pool.map(_one, range(len(sel)), chunksize=1)
    summary = {}
    fails = []
    for r in results:
        d = summary.setdefault(r['function'], {'ok': 0, 'fail': 0, 'inconclusive': 0, 'determined': 0, 'abstract': 0})
        st = r['status']
        if st.startswith('ok'):
            d['ok'] += 1
            d['determined'] += r.get('determined', 0)
            d['abstract'] += r.get('abstract', 0)
        elif st in ('fail', 'crash'):
            d['fail'] += 1
            fails.append(r)
        else:
            d['inconclusive'] += 1
    return {'cases': len(sel), 'functions': summary, 'failures': fails}


if __name__ == '__main__':
    import importlib
    import json
    import sys
    import time
    for m in ('trackers', 'multi_value', 'sliding_window', 'storage', 'wrappers', 'explainer', 'imputer'):
        importlib.import_module('contracts.' + m)
    t = time.time()
    keys = set(sys.argv[1:]) or None
    out = run_for(keys, workers=int(__import__('os').environ.get('PYVC_WORKERS', '8')))
    print(json.dumps(out, indent=1, default=str)[:6000])
    print(f"{out['cases']} concrete calls, {len(out['failures'])} failures, {time.time() - t:.1f}s")
    sys.exit(3 if out['failures'] else 0)
