"""Types, SMT sorts and symbolic values.

Value model (what of Python's semantics the encoding assumes) - see DESIGN.md 3.3:
  int -> Int (exact); float / NumPy float -> Real (machine arithmetic treated as mathematical);
  NumK = number carrying a NumPy-kind flag and a finiteness flag (only where semantics differ);
  hashable opaque things (feature names, labels, string literals) -> uninterpreted sort Key;
  opaque feature values / targets -> uninterpreted sort Val;
  dict -> (domain array, value array) with "value outside the domain is the sort's default";
  set -> Bool array; list/deque/1-d array -> (length, Int-indexed array);
  objects of classes under contract -> records (value semantics, see ownership audit).
"""
import itertools
import z3

KeyS = z3.DeclareSort('Key')
ValS = z3.DeclareSort('Val')
FnS = z3.DeclareSort('Fn')          # identity of a callback / opaque callable

_fresh_counter = itertools.count()


def reset_fresh():
    global _fresh_counter
    _fresh_counter = itertools.count()


def fresh_name(base):
    return f"{base}!{next(_fresh_counter)}"


_BAD_PAT = None


def valid_pattern(t):
    """z3 rejects patterns containing logical connectives / ite / equality"""
    bad = {z3.Z3_OP_ITE, z3.Z3_OP_NOT, z3.Z3_OP_OR, z3.Z3_OP_AND, z3.Z3_OP_EQ, z3.Z3_OP_IMPLIES, z3.Z3_OP_DISTINCT,
           z3.Z3_OP_TRUE, z3.Z3_OP_FALSE, z3.Z3_OP_XOR}
    stack = [t]
    has_app = False
    while stack:
        x = stack.pop()
        if z3.is_quantifier(x):
            return False
        if z3.is_app(x):
            if x.decl().kind() in bad:
                return False
            if x.num_args() > 0:
                has_app = True
            stack.extend(x.children())
    return has_app


def forall(vars_, body, pats=None):
    if not isinstance(vars_, (list, tuple)):
        vars_ = [vars_]
    if pats:
        good = [p for p in pats if valid_pattern(p) and all(_mentions_var(p, v) for v in vars_)]
        if good:
            try:
                return z3.ForAll(list(vars_), body, patterns=good)
            except z3.Z3Exception:
                pass
    return z3.ForAll(list(vars_), body)


def _mentions_var(t, v):
    vid = v.get_id()
    stack = [t]
    seen = set()
    while stack:
        x = stack.pop()
        if x.get_id() in seen:
            continue
        seen.add(x.get_id())
        if x.get_id() == vid:
            return True
        if z3.is_app(x):
            stack.extend(x.children())
    return False


# ------------------------------------------------------------------------------------------------
# types
# ------------------------------------------------------------------------------------------------
class T:
    name = 'T'

    def sort(self):
        raise NotImplementedError

    def fresh(self, base):
        return self.wrap(z3.Const(fresh_name(base), self.sort()))

    def wrap(self, term, home=None):
        raise NotImplementedError

    def wf(self, term):
        """well-formedness facts of a packed term (list of BoolRef)"""
        return []

    def default(self):
        return z3.Const(f"dflt_{self.name}", self.sort())

    def __repr__(self):
        return self.name

    def __eq__(self, o):
        return isinstance(o, T) and self.name == o.name

    def __hash__(self):
        return hash(self.name)


class _TInt(T):
    name = 'Int'

    def sort(self): return z3.IntSort()
    def wrap(self, term, home=None): return SNum(term)
    def default(self): return z3.IntVal(0)


class _TNum(T):
    name = 'Num'

    def sort(self): return z3.RealSort()

    def wrap(self, term, home=None):
        return SNum(term)

    def default(self): return z3.RealVal(0)


class _TBool(T):
    name = 'Bool'

    def sort(self): return z3.BoolSort()
    def wrap(self, term, home=None): return SBool(term)
    def default(self): return z3.BoolVal(False)


class _TKey(T):
    name = 'Key'

    def sort(self): return KeyS
    def wrap(self, term, home=None): return SKey(term)


class _TVal(T):
    name = 'Val'

    def sort(self): return ValS
    def wrap(self, term, home=None): return SVal(term)


class _TFn(T):
    name = 'Fn'

    def sort(self): return FnS
    def wrap(self, term, home=None): return SFn(term)


class TFnRole(T):
    """a callback with a declared role (model / loss / predict): identity of sort Fn plus the role tag"""

    def __init__(self, role):
        self.role = role
        self.name = 'Fn'

    def sort(self): return FnS

    def wrap(self, term, home=None):
        f = SFn(term)
        f.role = self.role
        return f


class _TNone(T):
    name = 'None'

    def sort(self): return z3.BoolSort()
    def wrap(self, term, home=None): return NONE
    def fresh(self, base): return NONE


TInt, TNum, TBool, TKey, TVal, TFn, TNone = _TInt(), _TNum(), _TBool(), _TKey(), _TVal(), _TFn(), _TNone()

_dt_cache = {}


def _datatype(name, fields):
    """fields: list of (fname, sort). Cached single-constructor datatype."""
    if name in _dt_cache:
        return _dt_cache[name]
    d = z3.Datatype(name)
    d.declare('mk_' + name, *[(name + '_' + f, s) for f, s in fields])
    d = d.create()
    _dt_cache[name] = d
    return d


class _TNumK(T):
    """a number with a numeric kind (py / NumPy) and a finiteness flag"""
    name = 'NumK'

    def sort(self):
        return _datatype('NumK', [('r', z3.RealSort()), ('np', z3.BoolSort()), ('fin', z3.BoolSort())])

    def wrap(self, term, home=None):
        dt = self.sort()
        return SNum(dt.accessor(0, 0)(term), np=dt.accessor(0, 1)(term), fin=dt.accessor(0, 2)(term))

    def default(self):
        return self.sort().constructor(0)(z3.RealVal(0), z3.BoolVal(False), z3.BoolVal(True))


TNumK = _TNumK()


class TDict(T):
    def __init__(self, k, v):
        self.k, self.v = k, v
        self.name = f"Dict_{k.name}_{v.name}"

    def sort(self):
        return _datatype(self.name, [('dom', z3.ArraySort(self.k.sort(), z3.BoolSort())),
                                     ('val', z3.ArraySort(self.k.sort(), self.v.sort()))])

    def wrap(self, term, home=None):
        return SDict(self, term, home)

    def mk(self, dom, val):
        return self.sort().constructor(0)(dom, val)

    def dom(self, t):
        return z3.simplify(self.sort().accessor(0, 0)(t))

    def val(self, t):
        return z3.simplify(self.sort().accessor(0, 1)(t))

    def empty(self):
        return self.mk(z3.K(self.k.sort(), z3.BoolVal(False)), z3.K(self.k.sort(), self.v.default()))

    def wf(self, term):
        k = z3.Const(fresh_name('wfk'), self.k.sort())
        dom, val = self.dom(term), self.val(term)
        out = [forall([k], z3.Implies(z3.Not(dom[k]), val[k] == self.v.default()), [val[k]])]
        sub = self.v.wf(val[k])
        if sub:
            out.append(forall([k], z3.And(*sub), [val[k]]))
        return out


class TSet(T):
    def __init__(self, k):
        self.k = k
        self.name = f"Set_{k.name}"

    def sort(self):
        return z3.ArraySort(self.k.sort(), z3.BoolSort())

    def wrap(self, term, home=None):
        return SSet(self, term, home)

    def empty(self):
        return z3.K(self.k.sort(), z3.BoolVal(False))

    def default(self):
        return self.empty()


class TList(T):
    def __init__(self, e):
        self.e = e
        self.name = f"List_{e.name}"

    def sort(self):
        return _datatype(self.name, [('n', z3.IntSort()), ('arr', z3.ArraySort(z3.IntSort(), self.e.sort()))])

    def wrap(self, term, home=None):
        return SList(self, term, home)

    def mk(self, n, arr):
        return self.sort().constructor(0)(n, arr)

    def n(self, t):
        return z3.simplify(self.sort().accessor(0, 0)(t))

    def arr(self, t):
        return z3.simplify(self.sort().accessor(0, 1)(t))

    def empty(self):
        return self.mk(z3.IntVal(0), z3.K(z3.IntSort(), self.e.default()))

    def wf(self, term):
        out = [self.n(term) >= 0]
        i = z3.Int(fresh_name('wfi'))
        sub = self.e.wf(self.arr(term)[i])
        if sub:
            out.append(forall([i], z3.And(*sub), [self.arr(term)[i]]))
        return out


class TTuple(T):
    def __init__(self, *ts):
        self.ts = ts
        self.name = "Tup_" + "_".join(t.name for t in ts)

    def sort(self):
        return _datatype(self.name, [(f"e{i}", t.sort()) for i, t in enumerate(self.ts)])

    def wrap(self, term, home=None):
        dt = self.sort()
        return STuple([t.wrap(z3.simplify(dt.accessor(0, i)(term))) for i, t in enumerate(self.ts)])


class _TNDArray(T):
    """1-d float ndarray: length, values, NaN mask (entry j is NaN iff nan[j])"""
    name = 'NDArray'

    def sort(self):
        return _datatype('NDArray', [('n', z3.IntSort()), ('arr', z3.ArraySort(z3.IntSort(), z3.RealSort())),
                                     ('nan', z3.ArraySort(z3.IntSort(), z3.BoolSort()))])

    def wrap(self, term, home=None):
        return SNDArray(self, term, home)

    def mk(self, n, arr, nan):
        return self.sort().constructor(0)(n, arr, nan)

    def wf(self, term):
        return [z3.simplify(self.sort().accessor(0, 0)(term)) >= 0]


TNDArray = _TNDArray()


class _TOutArr(T):
    """a model's output array of ndim 0, 1 or 2: dims d0, d1, flat row-major data, string-content flag"""
    name = 'OutArr'

    def sort(self):
        return _datatype('OutArr', [('ndim', z3.IntSort()), ('d0', z3.IntSort()), ('d1', z3.IntSort()),
                                    ('data', z3.ArraySort(z3.IntSort(), z3.RealSort())), ('isstr', z3.BoolSort())])

    def wrap(self, term, home=None):
        return SOutArr(self, term, home)

    def mk(self, ndim, d0, d1, data, isstr):
        return self.sort().constructor(0)(ndim, d0, d1, data, isstr)

    def f(self, term, i):
        return z3.simplify(self.sort().accessor(0, i)(term))

    def wf(self, term):
        nd, d0, d1 = self.f(term, 0), self.f(term, 1), self.f(term, 2)
        return [nd >= 0, nd <= 2, d0 >= 0, d1 >= 0, z3.Implies(nd == 0, z3.And(d0 == 1, d1 == 1)), z3.Implies(nd == 1, d1 == 1)]

    def size(self, term):
        return self.f(term, 1) * self.f(term, 2)


TOutArr = _TOutArr()


class TArr(T):
    """a raw (ghost) array, e.g. the stream history: index -> element"""

    def __init__(self, i, e):
        self.i, self.e = i, e
        self.name = f"Arr_{i.name}_{e.name}"

    def sort(self):
        return z3.ArraySort(self.i.sort(), self.e.sort())

    def wrap(self, term, home=None):
        return SArr(self, term)


CLASSES = {}     # short class name -> ClassSpec (filled by pyvc.spec)


class TObj(T):
    def __init__(self, cls):
        self.cls = cls
        self.name = f"Obj_{cls}"

    def spec(self):
        return CLASSES[self.cls]

    def sort(self):
        sp = self.spec()
        return _datatype(self.name, [(f, t.sort()) for f, t in sp.all_fields().items()])

    def wrap(self, term, home=None):
        return SObj(self.cls, term=term, home=home)

    def field(self, term, fname):
        names = list(self.spec().all_fields().keys())
        return z3.simplify(self.sort().accessor(0, names.index(fname))(term))

    def mk(self, fielddict):
        names = list(self.spec().all_fields().keys())
        return self.sort().constructor(0)(*[fielddict[n] for n in names])

    def wf(self, term):
        out = []
        for f, t in self.spec().all_fields().items():
            out += t.wf(self.field(term, f))
        return out

    def fresh(self, base):
        """rooted fresh object: python-side field dict"""
        sp = self.spec()
        return SObj(self.cls, fields={f: t.fresh(f"{base}.{f}") for f, t in sp.all_fields().items()})


# ------------------------------------------------------------------------------------------------
# values
# ------------------------------------------------------------------------------------------------
class SV:
    typ = None
    home = None


class SNum(SV):
    def __init__(self, t, np=None, fin=None):
        if isinstance(t, (int, float)):
            t = z3.IntVal(t) if isinstance(t, int) else z3.RealVal(repr(t))
        self.t = t
        self.np = np       # None: plain python-kind number; BoolRef: kind flag (True = NumPy scalar)
        self.fin = fin     # None: finite; BoolRef: finiteness flag

    @property
    def is_int(self):
        return self.t.sort() == z3.IntSort()

    @property
    def typ(self):
        if self.np is not None:
            return TNumK
        return TInt if self.is_int else TNum

    def real(self):
        return z3.ToReal(self.t) if self.is_int else self.t

    def __repr__(self):
        return f"SNum({self.t})"


class SBool(SV):
    typ = TBool

    def __init__(self, t):
        if isinstance(t, bool):
            t = z3.BoolVal(t)
        self.t = t

    def __repr__(self):
        return f"SBool({self.t})"


class SKey(SV):
    typ = TKey

    def __init__(self, t): self.t = t
    def __repr__(self): return f"SKey({self.t})"


class SVal(SV):
    typ = TVal

    def __init__(self, t): self.t = t
    def __repr__(self): return f"SVal({self.t})"


class SFn(SV):
    typ = TFn
    role = None

    def __init__(self, t, role=None):
        self.t = t
        if role:
            self.role = role
    def __repr__(self): return f"SFn({self.t})"


class _SNone(SV):
    typ = TNone
    t = z3.BoolVal(True)

    def __repr__(self): return "NONE"


NONE = _SNone()


class SCompound(SV):
    """a mutable compound value: rooted (owns its packed term) or a view into a parent container"""

    def __init__(self, typ, term, home=None):
        self.typ = typ
        self._t = term
        self.home = home

    def get(self):
        if self.home is not None:
            return self.home[0].load(self.home[1])
        return self._t

    def set(self, term):
        term = z3.simplify(term)
        if self.home is not None:
            self.home[0].store(self.home[1], term)
        else:
            self._t = term

    @property
    def t(self):
        return self.get()


class SDict(SCompound):
    @property
    def dom(self): return self.typ.dom(self.get())

    @property
    def val(self): return self.typ.val(self.get())

    def load(self, key):
        return z3.simplify(self.val[key])

    def store(self, key, term):
        self.set(self.typ.mk(z3.Store(self.dom, key, z3.BoolVal(True)), z3.Store(self.val, key, term)))

    def remove(self, key):
        self.set(self.typ.mk(z3.Store(self.dom, key, z3.BoolVal(False)),
                             z3.Store(self.val, key, self.typ.v.default())))

    def elem(self, key):
        """symbolic value of d[key] (a view for compound element types)"""
        return self.typ.v.wrap(self.load(key), home=(self, key))

    def __repr__(self): return f"SDict<{self.typ.name}>"


class SSet(SCompound):
    @property
    def dom(self): return self.get()

    def __repr__(self): return f"SSet<{self.typ.name}>"


class SList(SCompound):
    @property
    def n(self): return self.typ.n(self.get())

    @property
    def arr(self): return self.typ.arr(self.get())

    def load(self, idx):
        return z3.simplify(self.arr[idx])

    def store(self, idx, term):
        self.set(self.typ.mk(self.n, z3.Store(self.arr, idx, term)))

    def elem(self, idx):
        return self.typ.e.wrap(self.load(idx), home=(self, idx))

    def __repr__(self): return f"SList<{self.typ.name}>"


class SNDArray(SCompound):
    @property
    def n(self): return z3.simplify(self.typ.sort().accessor(0, 0)(self.get()))

    @property
    def arr(self): return z3.simplify(self.typ.sort().accessor(0, 1)(self.get()))

    @property
    def nan(self): return z3.simplify(self.typ.sort().accessor(0, 2)(self.get()))

    def store(self, idx, val, isnan=False):
        self.set(self.typ.mk(self.n, z3.Store(self.arr, idx, val), z3.Store(self.nan, idx, z3.BoolVal(isnan))))

    def __repr__(self): return "SNDArray"


class SOutArr(SCompound):
    ndim = property(lambda self: self.typ.f(self.get(), 0))
    d0 = property(lambda self: self.typ.f(self.get(), 1))
    d1 = property(lambda self: self.typ.f(self.get(), 2))
    data = property(lambda self: self.typ.f(self.get(), 3))
    isstr = property(lambda self: self.typ.f(self.get(), 4))
    size = property(lambda self: self.typ.size(self.get()))

    def __repr__(self): return "SOutArr"


class SArr(SV):
    def __init__(self, typ, t):
        self.typ, self.t = typ, t

    def __getitem__(self, i):
        return self.t[i]


class STuple(SV):
    def __init__(self, items):
        self.items = list(items)

    @property
    def typ(self):
        return TTuple(*[i.typ for i in self.items])

    @property
    def t(self):
        return self.typ.sort().constructor(0)(*[pack(i) for i in self.items])

    def __repr__(self): return f"STuple({self.items})"


class SObj(SV):
    """an object of a class under contract. rooted: python-side field dict (fields may be shared
    SV instances); view/packed: a datatype term (inside containers)."""

    def __init__(self, cls, fields=None, term=None, home=None):
        self.cls = cls
        self.fields = fields
        self._t = term
        self.home = home

    @property
    def typ(self):
        return TObj(self.cls)

    def spec(self):
        return CLASSES[self.cls]

    def packed(self):
        return self.fields is None

    def get(self):
        if self.home is not None:
            return self.home[0].load(self.home[1])
        return self._t

    def getfield(self, name):
        if self.fields is not None:
            if name not in self.fields:
                return None
            return self.fields[name]
        ft = self.spec().all_fields().get(name)
        if ft is None:
            return None
        return ft.wrap(self.typ.field(self.get(), name), home=(self, name))

    # container protocol so that compound fields of packed objects are views
    def load(self, fname):
        return self.typ.field(self.get(), fname)

    def store(self, fname, term):
        names = self.spec().all_fields()
        cur = self.get()
        new = self.typ.mk({n: (term if n == fname else self.typ.field(cur, n)) for n in names})
        new = z3.simplify(new)
        if self.home is not None:
            self.home[0].store(self.home[1], new)
        else:
            self._t = new

    def setfield(self, name, value):
        if self.fields is not None:
            self.fields[name] = value
        else:
            self.store(name, pack(value, self.spec().all_fields()[name]))

    @property
    def t(self):
        if self.fields is None:
            return self.get()
        sp = self.spec().all_fields()
        return self.typ.mk({n: (pack(self.fields[n], sp[n]) if self.fields.get(n) is not None else sp[n].default())
                            for n in sp})

    def __repr__(self): return f"SObj<{self.cls}>"


def pack(v, typ=None):
    """z3 term of a symbolic value, coerced to typ's sort when given"""
    if v is NONE and typ is TVal:
        return z3.Const('none_val', ValS)
    if isinstance(v, SKey) and typ is TVal:
        return z3.Function('key_as_val', KeyS, ValS)(v.t)
    if isinstance(v, SNum) and typ is TVal:
        return z3.Function('num_as_val', z3.RealSort(), ValS)(v.real())
    if isinstance(v, SDict) and typ is TVal:
        return z3.Function('dict_as_val_' + v.typ.name, v.typ.sort(), ValS)(v.get())
    if isinstance(v, SNum):
        if typ is TNumK or (typ is None and v.np is not None):
            return TNumK.sort().constructor(0)(v.real(), v.np if v.np is not None else z3.BoolVal(False),
                                               v.fin if v.fin is not None else z3.BoolVal(True))
        if typ is TNum:
            return v.real()
        if typ is TInt and not v.is_int:
            raise TypeError("real where int expected")
        return v.t
    if isinstance(v, SBool) and typ is TNum:
        return z3.If(v.t, z3.RealVal(1), z3.RealVal(0))
    return v.t


def clone(v, memo=None):
    """deep copy of a symbolic value preserving aliasing among rooted values"""
    if memo is None:
        memo = {}
    if id(v) in memo:
        return memo[id(v)]
    if isinstance(v, (SNum, SBool, SKey, SVal, SFn, _SNone, SArr)):
        return v
    if isinstance(v, STuple):
        r = STuple([clone(i, memo) for i in v.items])
    elif isinstance(v, SObj):
        if v.fields is not None:
            r = SObj(v.cls, fields={})
            memo[id(v)] = r
            for k, f in v.fields.items():
                r.fields[k] = clone(f, memo)
            return r
        r = SObj(v.cls, term=v.get())
    elif isinstance(v, SCompound):
        r = type(v)(v.typ, v.get())
    else:
        r = v
    memo[id(v)] = r
    return r


def snapshot(v):
    """an immutable (rooted, detached) copy, for old()/entry values"""
    return clone(v, {})
