"""Re-checks the Lean lemma library on every run of a property that uses it."""
import os
import re
import subprocess
import time

HERE = os.path.dirname(os.path.dirname(os.path.abspath(__file__)))
LEMMA_FILE = os.path.join(HERE, 'lemmas', 'Lemmas.lean')


def check(required):
    t0 = time.time()
    src = open(LEMMA_FILE).read()
    code = re.sub(r'/-.*?-/', '', src, flags=re.S)
    code = re.sub(r'--.*', '', code)
    names = set(re.findall(r'^theorem\s+([A-Za-z0-9_]+)', code, flags=re.M))
    missing = [r for r in required if r not in names]
    banned = [w for w in ('sorry', 'admit', 'axiom ', 'native_decide', 'unsafe ') if w in code]
    if missing or banned:
        return {'ok': False, 'detail': f"missing theorems {missing}; banned tokens {banned}", 'seconds': 0}
    try:
        p = subprocess.run(['lean', LEMMA_FILE], capture_output=True, text=True, timeout=900)
    except Exception as ex:   # noqa
        return {'ok': False, 'detail': f"lean did not run: {ex}", 'seconds': time.time() - t0}
    out = p.stdout + p.stderr
    ok = p.returncode == 0 and 'error' not in out and 'sorry' not in out
    return {'ok': ok, 'detail': out[-800:] if not ok else 'checked', 'seconds': round(time.time() - t0, 1),
            'theorems': sorted(required), 'cmd': 'lean lemmas/Lemmas.lean'}
