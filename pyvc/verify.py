"""Per-function verification driver: set up the symbolic pre-state from the contract, explore all
paths of the real body, emit exit obligations (postcondition clauses, invariants, frame,
exceptional postconditions, interface refinement, vacuity canaries)."""
import z3

from . import sym, spec, frontend, symex
from .sym import (SObj, SNum, SBool, NONE, TObj, TNone, pack, snapshot, SV, SDict, SList, TDict, TList)
from .spec import FUNCS, CLASSES, Ctx, NS, ObjView, view, TOpt
from .symex import (Run, Explorer, Options, PyRaise, ReturnSig, PathEnd, Unsupported, Obligation, locate,
                    param_names, param_defaults, exc_matches, _conj, _term)


class FunctionReport:
    def __init__(self, key):
        self.key = key
        self.obligations = []
        self.paths = 0
        self.normal_exits = 0
        self.exc_exits = {}
        self.unsupported = None
        self.trusted = set()
        self.called = set()
        self.file = None


def verify_function(fs, opts=None):
    opts = opts or Options()
    rep = FunctionReport(fs.key)
    rep.file = fs.file
    try:
        fdef, mod = locate(fs)
    except Unsupported as u:
        rep.unsupported = str(u)
        return rep
    ex = Explorer()
    while True:
        ex.start()
        sym.reset_fresh()
        run = Run(fs, fdef, mod, ex, opts)
        try:
            run_path(run, fs, fdef, rep)
        except PathEnd:
            pass
        except Unsupported as u:
            rep.unsupported = str(u)
            rep.obligations += run.obligations
            break
        rep.obligations += run.obligations
        rep.trusted |= run.trusted
        rep.called |= run.called
        if not ex.backtrack():
            break
        if ex.paths > 400:
            rep.unsupported = "path explosion (>400 paths)"
            break
    rep.paths = ex.paths
    return rep


def setup_state(run, fs, fdef):
    """symbolic pre-state: self (invariant assumed), parameters (typed by the contract), requires"""
    if fs.kind == 'init':
        selfv = SObj(fs.self_cls or fs.cls_name, fields={})
    elif fs.kind in ('method', 'property'):
        tobj = TObj(fs.self_cls or fs.cls_name)
        selfv = tobj.fresh('self')
        run.pc += run._wf_obj(selfv)
    else:
        selfv = None
    run.self_obj = selfv
    if selfv is not None:
        run.env['self'] = selfv
    pos, kwonly = param_names(fdef, skip_self=fs.kind in ('method', 'init', 'property'))
    defaults = param_defaults(fdef)
    for p in pos + kwonly:
        if p in fs.params:
            t = fs.params[p]
            if isinstance(t, TOpt):
                if run.choose_free(p + '_is_none'):
                    run.env[p] = NONE
                    continue
                t = t.t
            v = run.fresh(t, p)
            tag = getattr(t, 'role', None)
            run.env[p] = v
        elif p in defaults:
            run.env[p] = run.ev(defaults[p])
        else:
            raise Unsupported(f"{fs.key}: parameter {p} of the source has no type in the contract")
    for p in fs.params:
        if p not in pos + kwonly:
            raise Unsupported(f"{fs.key}: contract parameter {p} missing from the source signature")
    lg = {n: run.fresh(t, 'lg_' + n) for n, t in fs.logical.items()}
    run.lg = NS(lg)
    run.lg_raw = lg
    run.old = snapshot(selfv) if selfv is not None and fs.kind != 'init' else None
    run.args0 = {k: (snapshot(v) if isinstance(v, SV) else v) for k, v in run.env.items() if k != 'self'}
    if selfv is not None and fs.kind != 'init' and fs.entry_inv:
        for cname, f in selfv.spec().all_invariants().items():
            run.assume(_conj(f(ObjView(selfv))))
        if selfv.spec().opaque_inv:
            run.assume(spec.INV(selfv.cls, selfv.t))
        for sub in nested_objects(selfv):
            assume_invariants(run, sub)
    cpre = Ctx(old=ObjView(run.old) if run.old is not None else None, new=ObjView(selfv) if selfv is not None else None,
               a=NS(run.args0), run=run, lg=run.lg)
    for cname, f in fs.requires.items():
        run.assume(_conj(f(cpre)))
    if fs.entry_lemmas:
        run.assume(*fs.entry_lemmas(cpre))
    # ghost mirrors: writes to a real list field are mirrored into a ghost list (e.g. arrival ids)
    for real, (ghost, valf) in fs.mirrors.items():
        if selfv is not None and selfv.getfield(real) is not None and selfv.getfield(ghost) is not None:
            selfv.getfield(real).mirror = (selfv.getfield(ghost), _term(valf(cpre)))
    return cpre


def run_path(run, fs, fdef, rep):
    cpre = setup_state(run, fs, fdef)
    hook = run.opts.extra.get('after_setup')
    if hook:
        hook(run)       # e.g. constrain the symbolic pre-state to a concrete reachable state (pyvc.confirm)
    body = frontend.strip_docstring(fdef.body)
    res = NONE
    try:
        # typed empty containers for declared locals
        run.local_types = fs.local_types
        _exec_with_local_types(run, body)
    except ReturnSig as r:
        res = r.value
    except PyRaise as e:
        exceptional_exit(run, fs, e, cpre, rep)
        return
    normal_exit(run, fs, res, rep)


def _exec_with_local_types(run, body):
    orig_assign = run.assign

    def assign(target, v):
        import ast
        if isinstance(target, ast.Name) and target.id in run.local_types:
            t = run.local_types[target.id]
            if isinstance(v, symex.PyEmptyDict) and isinstance(t, TDict):
                v = SDict(t, t.empty())
                if t.v is sym.TNum:
                    from . import lemmas
                    run.assume(*lemmas.msum_empty(t))
            elif isinstance(v, symex.PyList) and isinstance(t, TList):
                v = run.make_list(v.items, t.e)
        orig_assign(target, v)
    run.assign = assign
    run.exec_block(body)


def nested_objects(o, seen=None):
    """rooted objects reachable through the fields of a rooted object (each once)"""
    seen = seen if seen is not None else set()
    out = []
    if o.fields is None:
        return out
    for f in o.fields.values():
        if isinstance(f, SObj) and f.fields is not None and id(f) not in seen and not getattr(f, 'absent', False):
            seen.add(id(f))
            out.append(f)
            out += nested_objects(f, seen)
    return out


def assume_invariants(run, o):
    for cname, f in o.spec().all_invariants().items():
        run.assume(_conj(f(ObjView(o))))
    if o.spec().opaque_inv:
        run.assume(spec.INV(o.cls, o.t))


def normal_exit(run, fs, res, rep):
    rep.normal_exits += 1
    run.result_value = res
    if run.opts.fault_mode and getattr(run, 'swallowed_faults', 0):
        # fault mode: a callback failed on this path, an exception handler caught it and the function returns normally
        run.oblige(f"{fs.key}/raises/CallbackError/propagates", False, kind='raises_post', clause='fault_propagates', function=fs.key,
                   detail='an exception raised by a callback is caught by a handler and the call returns normally')
    key = fs.key
    selfv = run.self_obj
    if fs.kind == 'init':
        sp = CLASSES[fs.self_cls or fs.cls_name]
        if fs.ghost_update is not None:
            c0 = Ctx(old=None, new=ObjView(selfv), a=NS(run.args0), run=run, lg=run.lg)
            allf = sp.all_fields()
            for g, term in fs.ghost_update(c0).items():
                selfv.setfield(g, allf[g].wrap(z3.simplify(_term(term))))
        missing = [f for f in sp.fields_all_real() if selfv.getfield(f) is None and f not in sp.optional]
        run.oblige(f"{key}/init_fields", not missing, kind='init_fields', clause='init_fields', function=key,
                   detail=f"fields never assigned: {missing}")
        if missing:
            return
        # coerce to the declared types
        for f, t in sp.fields_all_real().items():
            cur = selfv.getfield(f)
            if cur is None:
                # optional field of a union record that this class does not have: unconstrained
                av = run.fresh(t, 'absent_' + f)
                if isinstance(av, SObj):
                    av.absent = True
                selfv.setfield(f, av)
                continue
            try:
                tt = pack(cur, t) if not (isinstance(cur, SObj) and cur.fields is not None) else None
                if tt is not None and tt.sort() != t.sort():
                    raise TypeError(f"{tt.sort()} vs {t.sort()}")
            except Exception as ex:   # noqa
                run.oblige(f"{key}/field_type/{f}", False, kind='field_type', clause=f, function=key,
                           detail=f"{f}: {cur} is not a {t}: {ex}")
                return
    if fs.ret is not None and isinstance(res, SV) and not fs.returns_self:
        res = symex.coerce(run, res, fs.ret)
    cexit = Ctx(old=ObjView(run.old) if run.old is not None else None,
                new=ObjView(selfv) if selfv is not None else None,
                a=NS(run.args0), res=view(res) if isinstance(res, SV) else res, run=run, lg=run.lg,
                a_new=NS({k: v for k, v in run.env.items()}))
    if fs.ghost_out:
        # ghost results are DEFINED by the body's ghost state at exit (e.g. the list of model inputs built by a loop ghost)
        cexit.gout = NS({g: gt.wrap(_term(run.clause('ghost:' + g, gdef, cexit))) for g, (gt, gdef) in fs.ghost_out.items()})
    for cn, f in fs.counts.items():
        run.oblige(f"{key}/post/count:{cn}", run.counter(cn) == _term(run.clause('count:' + cn, f, cexit)), kind='post', clause='count:' + cn,
                   function=key)
    if fs.ghost_update is not None and selfv is not None and fs.kind != 'init':
        allf = selfv.spec().all_fields()
        for g, term in fs.ghost_update(cexit).items():
            selfv.setfield(g, allf[g].wrap(z3.simplify(_term(term))))
    lemma_facts = []
    if fs.lemmas:
        lemma_facts = [_conj(x) for x in fs.lemmas(cexit)]
        run.assume(*lemma_facts)
    step_facts = {'@lemmas': z3.And(*lemma_facts) if lemma_facts else z3.BoolVal(True)}
    for entry in fs.exit_cuts:
        cname, f = entry[0], entry[1]
        uses = entry[2] if len(entry) > 2 else None
        g = _conj(run.clause('step:' + cname, f, cexit))
        if uses is None:
            run.oblige(f"{key}/step/{cname}", g, kind='step', clause='step:' + cname, function=key)
        else:
            # proved from the named earlier steps alone (each of them was proved on this path): a small query
            saved = run.pc
            run.pc = symex.PC(run, [step_facts[u] for u in uses])
            run.oblige(f"{key}/step/{cname}", g, kind='step', clause='step:' + cname, function=key)
            run.pc = saved
        step_facts[cname] = g
        run.assume(g)
    if fs.returns_self:
        run.oblige(f"{key}/post/returns_self", res is selfv, kind='post', clause='returns_self', function=key)
    elif fs.ret is not None and isinstance(res, SV):
        try:
            rt = pack(res, fs.ret)
            ok = rt.sort() == fs.ret.sort()
        except Exception:   # noqa
            ok = False
        if not ok:
            run.oblige(f"{key}/post/result_type", False, kind='post', clause='result_type', function=key,
                       detail=f"result {res} is not a {fs.ret}")
            return
    for cname, f in list(fs.ensures.items()) + list(fs.body_ensures.items()):
        goal = _conj(run.clause(cname, f, cexit))
        if cname in fs.clause_lemmas:
            goal = z3.Implies(z3.And(*fs.clause_lemmas[cname](cexit)), goal)
        run.oblige(f"{key}/post/{cname}", goal, kind='post', clause=cname, function=key)
    if fs.implements:
        ifs = FUNCS[fs.implements]
        for cname, f in ifs.ensures.items():
            run.oblige(f"{key}/iface:{ifs.key}/{cname}", run.clause(cname, f, cexit), kind='iface', clause=cname, function=key)
    if selfv is not None and fs.exit_inv and not fs.pure:
        for cname, f in selfv.spec().all_invariants().items():
            run.oblige(f"{key}/inv/{cname}", run.clause(cname, f, ObjView(selfv)), kind='inv', clause='inv:' + cname,
                       function=key)
    if selfv is not None and fs.exit_inv and not fs.pure:
        for sub in nested_objects(selfv):
            if sub.spec().opaque_inv:
                # a sub-object only changes through its own contracts, which hand back the opaque invariant
                run.oblige(f"{key}/inv/{sub.cls}.INV", spec.INV(sub.cls, sub.t), kind='inv',
                           clause=f'inv:{sub.cls}.INV', function=key)
                continue
            for cname, f in sub.spec().all_invariants().items():
                run.oblige(f"{key}/inv/{sub.cls}.{cname}", run.clause(cname, f, ObjView(sub)), kind='inv',
                           clause=f'inv:{sub.cls}.{cname}', function=key)
    if selfv is not None and fs.kind != 'init':
        frame = None
        if fs.pure:
            frame = []
        elif fs.modifies is not None:
            frame = fs.modifies
        if frame is not None:
            for f in run.old.spec().all_fields():
                if f in frame or f in selfv.spec().ghost_all():
                    continue
                o, n = run.old.getfield(f), selfv.getfield(f)
                if o is None and n is None:
                    continue
                run.oblige(f"{key}/frame/{f}", run.equal(o, n), kind='frame', clause='frame:' + f, function=key)
    run.oblige(f"{key}/canary", False, kind='canary', clause='canary', function=key, canary=True)


def exceptional_exit(run, fs, e, cpre, rep):
    key = fs.key
    rep.exc_exits[e.exc] = rep.exc_exits.get(e.exc, 0) + 1
    for exc, r in fs.raises.items():
        if exc_matches(e.exc, exc):
            selfv = run.self_obj
            c = Ctx(old=ObjView(run.old) if run.old is not None else None,
                    new=ObjView(selfv) if selfv is not None else None, a=NS(run.args0), run=run, lg=run.lg,
                    a_new=NS({k: v for k, v in run.env.items()}))
            if r.get('when') is not None:
                run.oblige(f"{key}/raises/{exc}/when", run.clause('when', r['when'], c), kind='raises_when', clause=f'raises:{exc}:when',
                           function=key, detail=e.info)
            for cname, f in (r.get('post') or {}).items():
                run.oblige(f"{key}/raises/{exc}/{cname}", run.clause(cname, f, c), kind='raises_post', clause=cname, function=key,
                           detail=e.info)
            if fs.exc_inv and selfv is not None:
                for cname, f in selfv.spec().all_invariants().items():
                    run.oblige(f"{key}/raises/{exc}/inv/{cname}", f(ObjView(selfv)), kind='inv',
                               clause='inv:' + cname, function=key)
            run.oblige(f"{key}/canary_exc/{exc}", False, kind='canary', clause='canary', function=key, canary=True)
            return
    run.oblige(f"{key}/no_exception/{e.exc}", False, kind='no_exception', clause='no_exception:' + e.exc,
               function=key, detail=f"{e.exc} can escape ({e.info}) at line {run.cur_line}")


def lemma_obligations(name, body, opts=None):
    """explore the paths of a spec-level lemma (ghost code over contracts); returns its obligations"""
    fs = spec.FuncSpec(name, None, kind='function')
    ex = Explorer()
    obls = []
    while True:
        ex.start()
        sym.reset_fresh()
        run = Run(fs, None, None, ex, opts or Options())
        try:
            body(run)
        except PathEnd:
            pass
        obls += run.obligations
        if not ex.backtrack():
            break
    return obls


def fresh_object(run, clsname, base, assume_inv=True):
    o = TObj(clsname).fresh(base)
    run.pc += run._wf_obj(o)
    if assume_inv:
        for cname, f in o.spec().all_invariants().items():
            run.assume(_conj(f(ObjView(o))))
        if o.spec().opaque_inv:
            run.assume(spec.INV(o.cls, o.t))
    return o
