"""Entry point behind /verif/check.

  ./check <Cnn> [--tier quick|thorough]     decide one property on /repo's current working tree
  ./check --replay <file>                   re-run a recorded counterexample against the real code
  ./check --list

Exit codes: 0 held (possibly with KNOWN-FINDING lines) / 1 violation (VIOLATION line) /
            2 undecided (solver unknown, code left the supported subset) / 3 checker error.
`unknown`, a timeout or a traceback are never mapped to a violation.
"""
import sys
import os
import json
import time
import fnmatch
import importlib
import hashlib
import traceback
import warnings
warnings.filterwarnings('ignore')
from collections import defaultdict

HERE = os.path.dirname(os.path.dirname(os.path.abspath(__file__)))
sys.path.insert(0, HERE)
REPO = os.environ.get('IXAI_REPO', '/repo')
if REPO not in sys.path:
    sys.path.insert(1, REPO)

from pyvc import verify, smt, spec, symex, frontend, lemmas, lean    # noqa: E402


# runs against a scratch copy of the repository (mutants, seeded changes) must not touch the committed evidence
SCRATCH = os.path.realpath(REPO) != '/repo'
OUT = HERE if not SCRATCH else os.path.join(os.environ.get('TMPDIR', '/tmp'), 'pyvc-scratch-out')


def load_prop(pid):
    return importlib.import_module('props.' + pid)


def match_any(name, pats):
    return any(fnmatch.fnmatch(name, p) for p in pats)


def slug(s):
    return ''.join(ch if ch.isalnum() else '_' for ch in s)[:80]


def known_findings():
    p = os.path.join(HERE, 'known_findings.json')
    if not os.path.exists(p):
        return []
    return json.load(open(p)).get('findings', [])


def finding_matches(f, pid, obligation=None, witness_key=None):
    if f.get('property') != pid or f.get('status') != 'known':
        return False
    m = f.get('match', {})
    if obligation is not None and m.get('obligation'):
        return fnmatch.fnmatch(obligation, m['obligation'])
    if witness_key is not None and m.get('witness_key'):
        return m['witness_key'] == witness_key
    return False


AUXILIARY_KINDS = {'inv', 'loop_established', 'loop_preserved', 'call_pre', 'no_exception', 'step', 'cut', 'frame', 'init_fields',
                   'field_type', 'callshape'}


class Result:
    def __init__(self):
        self.violations = []     # dicts: obligation/bounded name, replay path, confirmed, note
        self.known = []
        self.undecided = []
        self.errors = []


def run_property(pid, tier, seed):
    t0 = time.time()
    P = load_prop(pid)
    for m in P.CONTRACTS:
        importlib.import_module(m)
    frontend.reset()
    res = Result()
    fn_reports = []
    all_obls = []
    per_fn_counts = {}
    trusted = set()
    # ---- 1. VC generation over the closure -----------------------------------------------------------
    for item in P.CLOSURE:
        key = item['fn']
        fs = spec.FUNCS[key]
        o = dict(item.get('opts', {}))
        opts = symex.Options(callee_clauses=getattr(P, 'CALLEE_CLAUSES', None), **o)
        try:
            rep = verify.verify_function(fs, opts)
        except Exception as ex:   # engine crash
            res.errors.append(f"engine error in {key}: {ex}\n{traceback.format_exc()}")
            continue
        fn_reports.append(rep)
        trusted |= rep.trusted
        if rep.unsupported:
            res.undecided.append(f"{key}: {rep.unsupported}")
        pats = item.get('clauses', ['*'])
        tag = item.get('tag')
        sel = []
        for ob in rep.obligations:
            cl = ob.meta.get('clause', '')
            if ob.expect_sat or ob.meta.get('kind') in ('no_exception', 'init_fields', 'field_type', 'call_pre',
                                                         'callshape') and item.get('safety', True) \
                    or match_any(cl, pats) or match_any(ob.id, pats):
                if item.get('exclude') and (match_any(cl, item['exclude']) or match_any(ob.id, item['exclude'])):
                    continue
                if tag:
                    ob.id = ob.id + '@' + tag
                sel.append(ob)
        per_fn_counts[key + ('@' + tag if tag else '')] = len([x for x in sel if not x.expect_sat])
        all_obls += sel
    extra = getattr(P, 'EXTRA_OBLIGATIONS', None)
    if extra:
        try:
            eo = extra(tier)
            all_obls += eo
            per_fn_counts['(relational / corollary obligations)'] = len(eo)
        except symex.Unsupported as u:
            res.undecided.append(f"extra obligations: {u}")
        except Exception as ex:   # noqa
            res.errors.append(f"engine error in extra obligations: {ex}\n{traceback.format_exc()}")
    # ---- 1b. obligations decided by a syntactic (effect) analysis of the real source ------------------------------
    static_info = []
    static_failed = []
    if getattr(P, 'STATIC', None):
        try:
            static_info = P.STATIC(tier)
        except Exception as ex:   # noqa
            res.errors.append(f"static analysis crashed: {ex}\n{traceback.format_exc()}")
        per_fn_counts['(effect obligations)'] = len(static_info)
        static_failed = [x for x in static_info if not x['ok']]
    # ---- 2. discharge ------------------------------------------------------------------------------------
    results = smt.discharge(all_obls, tier)
    agg = defaultdict(list)
    for ob, r in zip(all_obls, results):
        agg[ob.id].append((ob, r))
    n_obl = len(static_info)
    n_dis = len(static_info) - len(static_failed)
    samples = [{'obligation': x['id'], 'status': 'holds', 'backend': 'effect analysis (AST)'} for x in static_info[:3]]
    solver_time = 0.0
    backends = defaultdict(int)
    failed = []
    candidates = []
    infeasible_paths = {}
    for oid, lst in agg.items():
        exp = lst[0][0].expect_sat
        sts = [r['status'] for _, r in lst]
        solver_time += sum(r['time'] for _, r in lst)
        if exp:
            # vacuity: NO path to this kind of exit is feasible under the assumed hypotheses (a single refuted path is an
            # infeasible path - e.g. an exception handler that a precondition rules out - and is only counted)
            if all(s == 'unsat' for s in sts) and '/canary_exc/' not in oid:
                res.errors.append(f"vacuity: hypotheses of {oid} are contradictory on every path (canary refuted nothing)")
            elif any(s == 'unsat' for s in sts):
                # (an exceptional exit the contract allows but no path can take is not vacuity: the code simply never raises it)
                infeasible_paths[oid] = sum(1 for s in sts if s == 'unsat')
            continue
        n_obl += 1
        for _, r in lst:
            backends[r['backend']] += 1
        if all(s == 'unsat' for s in sts):
            n_dis += 1
            if len(samples) < 6:
                ob = lst[0][0]
                samples.append({'obligation': oid, 'goal': str(ob.goal)[:400], 'hypotheses': len(ob.hyps),
                                'paths': len(lst), 'status': 'unsat', 'backend': lst[0][1]['backend'],
                                'ms': round(1000 * sum(r['time'] for _, r in lst), 1)})
        elif any(s == 'sat' for s in sts):
            ob, r = next((o, r) for o, r in lst if r['status'] == 'sat')
            failed.append((oid, ob, r))
        elif any(s == 'sat?' for s in sts):
            # candidate counterexample of the quantifier-free part only: believed only if confirmed natively
            ob, r = next((o, r) for o, r in lst if r['status'] == 'sat?')
            candidates.append((oid, ob, r))
        elif any(s == 'disagree' for s in sts):
            res.errors.append(f"back ends disagree on {oid}")
        else:
            reasons = [x.get('reason') for _, r in lst for x in r['runs'] if x.get('reason')]
            res.undecided.append(f"{oid}: solver answered unknown ({reasons[:2]})")
    # ---- 3. lean lemma library --------------------------------------------------------------------------
    lean_info = None
    if getattr(P, 'LEAN', None):
        lean_info = lean.check(P.LEAN)
        if not lean_info['ok']:
            res.errors.append("lean lemma library did not check: " + lean_info['detail'][:500])
    # ---- 3b. bounded stand-ins (native run-time contracts on the real code; never counted as proved) ----------
    os.makedirs(os.path.join(OUT, 'replays'), exist_ok=True)
    kf = known_findings()
    bounded_info = []
    bounded_failures = []
    if getattr(P, 'BOUNDED', None):
        try:
            for b in P.BOUNDED(tier, seed):
                info = {k: v for k, v in b.items() if k != 'failures'}
                info['label'] = 'bounded'
                info['failures'] = len(b.get('failures', []))
                bounded_info.append(info)
                seen_keys = set()
                for w in b.get('failures', []):
                    if w.get('key') in seen_keys or len(seen_keys) >= 3:
                        continue
                    seen_keys.add(w.get('key'))
                    path = os.path.join(OUT, 'replays', f"{pid}-bounded-{slug(b['name'])}-{slug(str(w.get('key','')))}.json")
                    rec = {'property': pid, 'obligation': 'bounded:' + b['name'], 'witness': w,
                           'observed': w.get('observed'), 'confirmed_on_real_code': True,
                           'repo_sources': frontend.sources_read()}
                    json.dump(rec, open(path, 'w'), indent=1, default=str)
                    entry = {'what': 'bounded:' + b['name'], 'replay': path, 'confirmed': True,
                             'detail': w.get('summary')}
                    bounded_failures.append((w, path))
                    k = next((f for f in kf if finding_matches(f, pid, witness_key=w.get('key'))
                              or finding_matches(f, pid, obligation='bounded:' + b['name'])), None)
                    if k:
                        res.known.append((k, entry))
                    else:
                        res.violations.append(entry)
        except Exception as ex:   # noqa
            res.errors.append(f"bounded stand-in crashed: {ex}\n{traceback.format_exc()}")
    # ---- 4. counterexamples -> replay on the real code ----------------------------------------------------
    confirm_budget = [240.0]
    for oid, ob, r in failed + candidates:
        is_candidate = r['status'] == 'sat?'
        witness = None
        confirmed = None
        dec = getattr(P, 'DECODE', None)
        if dec:
            try:
                witness = dec(ob, r.get('model') or {})
            except Exception as ex:   # noqa
                witness = None
        observed = None
        if witness is not None and getattr(P, 'REPLAY', None):
            try:
                observed = P.REPLAY(witness)
                confirmed = bool(observed.get('confirmed'))
            except Exception as ex:   # noqa
                observed = {'error': repr(ex)}
                confirmed = False
        if not confirmed and getattr(P, 'SEARCH', None):
            # bounded native search for a failing input of that clause
            try:
                found = P.SEARCH(ob, seed)
            except Exception as ex:   # noqa
                found = None
            if found is not None:
                witness, observed, confirmed = found['witness'], found['observed'], True
        if not confirmed and bounded_failures:
            # a failing input of this property on the real code exists (found by the bounded stand-in on this run):
            # it corroborates the failed / candidate obligation
            w0, p0 = bounded_failures[0]
            witness = {'corroborated_by_bounded_failure': w0.get('key'), 'summary': w0.get('summary'), 'replay': p0}
            observed = {'confirmed': True, 'what': w0.get('summary')}
            confirmed = True
        if not confirmed and confirm_budget[0] > 0 and (ob.meta.get('kind') not in AUXILIARY_KINDS or ob.meta.get('kind') == 'no_exception'):
            # (behavioural clauses only: a representation invariant refuted on a reachable state shows that the REPRESENTATION changed)
            # replay from a REACHABLE state: the obligation is re-generated with the pre-state pinned to concrete states built
            # through the library API, the solver picks the failing numeric arguments / draws, the real method is run on them
            # and the native execution must refute the clause (pyvc.confirm)
            t1 = time.time()
            try:
                from . import confirm as _confirm
                item = next((it for it in P.CLOSURE if it['fn'] == ob.meta.get('function')), None)
                hit = _confirm.confirm(ob.meta.get('function'), oid, dict(item.get('opts', {})) if item else {}, seed,
                                       budget_s=min(60, confirm_budget[0]))
            except Exception as ex:   # noqa
                hit = None
            confirm_budget[0] -= time.time() - t1
            if hit is not None:
                witness, observed, confirmed = {'reachable_replay': hit}, {'confirmed': True, 'what': hit['native_outcome']}, True
        path = os.path.join(OUT, 'replays', f"{pid}-{slug(oid)}.json")
        rec = {'property': pid, 'obligation': oid, 'function': ob.meta.get('function'),
               'kind': ob.meta.get('kind'), 'clause': ob.meta.get('clause'), 'line': ob.meta.get('line'),
               'detail': ob.meta.get('detail'), 'goal': str(ob.goal)[:2000],
               'solver': {'status': r['status'], 'backend': r['backend'], 'runs': r['runs'],
                          'model': r.get('model')},
               'witness': witness, 'observed': observed, 'confirmed_on_real_code': bool(confirmed),
               'repo_sources': frontend.sources_read()}
        json.dump(rec, open(path, 'w'), indent=1, default=str)
        entry = {'what': oid, 'replay': path, 'confirmed': bool(confirmed), 'detail': ob.meta.get('detail')}
        k = next((f for f in kf if finding_matches(f, pid, obligation=oid)), None)
        stricter = any(match_any(ob.meta.get('clause', ''), [p]) or match_any(oid, [p]) for p in getattr(P, 'STRICTER_THAN_STATEMENT', []))
        if is_candidate and not confirmed:
            res.undecided.append(f"{oid}: solver answered unknown; a model of the quantifier-free part exists but was not "
                                 f"confirmed on the real code (see {path})")
        elif ob.meta.get('kind') in AUXILIARY_KINDS and not confirmed:
            # proof structure (representation / loop invariants, callee preconditions, absence of exceptions, proof steps, frames):
            # losing one of these without any failing input on the real code means the PROOF is lost, not that the property is
            # violated - harmless refactorings do this routinely (DESIGN A4)
            res.undecided.append(f"{oid}: proof obligation of kind '{ob.meta.get('kind')}' no longer holds; no failing input on the real "
                                 f"code was found (bounded stand-ins, replay from reachable states) - proof lost, not a violation (see {path})")
        elif stricter and not confirmed:
            # a refinement clause demands more than the statement (e.g. "operation for operation the reference recurrence"):
            # losing it without any failing input is not a violation of the property - the verdict is undecided
            res.undecided.append(f"{oid}: the refinement clause no longer holds (it is stricter than the statement) and no failing "
                                 f"input was found on the real code by the bounded stand-in (see {path})")
        elif k:
            res.known.append((k, entry))
        else:
            res.violations.append(entry)
    for x in static_failed:
        witness, observed, confirmed = None, None, False
        if getattr(P, 'SEARCH_STATIC', None):
            try:
                found = P.SEARCH_STATIC(x, seed)
            except Exception as ex:   # noqa
                found = None
            if found is not None:
                witness, observed, confirmed = found['witness'], found['observed'], True
        if not confirmed and bounded_failures:
            w0, p0 = bounded_failures[0]
            witness = {'corroborated_by_bounded_failure': w0.get('key'), 'summary': w0.get('summary'), 'replay': p0}
            observed = {'confirmed': True, 'what': w0.get('summary')}
            confirmed = True
        path = os.path.join(OUT, 'replays', f"{pid}-{slug(x['id'])}.json")
        json.dump({'property': pid, 'obligation': x['id'], 'function': x.get('function'), 'detail': x.get('detail'),
                   'solver': {'status': 'fails', 'backend': 'effect analysis (AST)'}, 'witness': witness, 'observed': observed,
                   'confirmed_on_real_code': bool(confirmed), 'repo_sources': frontend.sources_read()},
                  open(path, 'w'), indent=1, default=str)
        entry = {'what': x['id'], 'replay': path, 'confirmed': bool(confirmed), 'detail': x.get('detail')}
        k = next((f for f in kf if finding_matches(f, pid, obligation=x['id'])), None)
        if k:
            res.known.append((k, entry))
        elif not confirmed:
            # the effect contract is syntactic and stricter than the statement (e.g. a private generator that is re-created from
            # the global one on every call would still be reproducible): without a failing replay the verdict is undecided
            res.undecided.append(f"{x['id']}: the effect contract no longer holds ({x.get('detail')}) but no replay on the real code "
                                 f"differed (see {path})")
        else:
            res.violations.append(entry)
    if n_obl == 0:
        res.errors.append("zero obligations generated")
    # ---- 5b. encoder soundness guard: engine vs CPython on concrete reachable calls (thorough tier) ----------------
    diff_info = None
    if tier == 'thorough' or os.environ.get('PYVC_DIFF'):
        try:
            from . import diffcheck
            keys = {item['fn'] for item in P.CLOSURE}
            diff_info = diffcheck.run_for(keys, workers=int(os.environ.get('PYVC_WORKERS', '0') or 0) or (os.cpu_count() or 4), seed=seed)
            for f in diff_info['failures'][:3]:
                res.errors.append(f"engine-vs-CPython differential check failed for {f['function']} (case {f.get('case')}): "
                                  f"{f.get('detail')} - the encoding or an assumed invariant excludes an execution the real "
                                  f"code performs")
            diff_info = {'concrete_calls': diff_info['cases'], 'per_function': diff_info['functions'],
                         'failures': [{k: v for k, v in f.items() if k != 'native'} for f in diff_info['failures'][:5]],
                         'rule': 'real objects built through the library API, real call run natively with scripted draws; the '
                                 'symbolic executor must admit the same pre-state, outcome and post-state on some path (only '
                                 'refutations count); functions of the closure that have registered concrete calls'}
        except Exception as ex:   # noqa
            res.errors.append(f"differential check crashed: {ex}\n{traceback.format_exc()}")
    # ---- 6. evidence -------------------------------------------------------------------------------------
    wall = time.time() - t0
    level = P.LEVEL
    functions = [{'function': r.key, 'file': r.file, 'paths': r.paths, 'normal_exits': r.normal_exits,
                  'exceptional_exits': r.exc_exits, 'callees_by_contract': sorted(r.called),
                  'unsupported': r.unsupported} for r in fn_reports]
    assumptions = list(getattr(P, 'ASSUMPTIONS', [])) + sorted(trusted)
    if lemmas.USED:
        assumptions.append("Lean lemma <-> SMT mirror correspondence (by reading; lemmas: " + ', '.join(sorted(lemmas.USED)) + ")")
    cov = {
        'obligations': n_obl, 'discharged': n_dis,
        'checker_cmd': f"./check {pid} --tier {tier}",
        'trusted_base': sorted(set(getattr(P, 'TRUSTED_BASE', [])) | {'z3 5.1 / cvc5 1.4 (SMT back ends)',
                                                                     'pyvc encoding of the Python subset (DESIGN.md 3.3)'}),
        'explanation': getattr(P, 'EXPLANATION', ''),
        'functions_under_contract': functions,
        'obligations_per_function': per_fn_counts,
        'backends': dict(backends), 'solver_time_s': round(solver_time, 3),
        'samples': samples + [{'failed_obligation': v['what'], 'replay': v['replay']} for v in res.violations[:3]],
        'sources_sha256': frontend.sources_read(),
        'lean': lean_info,
        'bounded_stand_ins': bounded_info,
        'encoder_differential': diff_info,
        'infeasible_paths': infeasible_paths,
        'undecided': res.undecided, 'known_findings_reported': [k['id'] for k, _ in res.known],
        'evaluations': sum(b.get('evaluations', 0) for b in bounded_info),
        'distinct_nontrivial': sum(b.get('distinct_nontrivial', 0) for b in bounded_info),
        'rule': '; '.join(b.get('rule', '') for b in bounded_info if b.get('rule')),
    }
    ev = {'property_id': pid, 'tier': tier, 'seed': seed, 'level': level, 'coverage': cov,
          'assumptions': assumptions, 'wall_s': round(wall, 2), 'violations': len(res.violations)}
    os.makedirs(os.path.join(OUT, 'evidence'), exist_ok=True)
    json.dump(ev, open(os.path.join(OUT, 'evidence', pid + '.json'), 'w'), indent=1, default=str)
    # ---- 7. verdict --------------------------------------------------------------------------------------
    print(f"[{pid}] {n_dis}/{n_obl} obligations discharged over {len(fn_reports)} functions "
          f"({sum(r.paths for r in fn_reports)} paths), solver {solver_time:.1f}s, wall {wall:.1f}s")
    for b in bounded_info:
        print(f"[{pid}] bounded stand-in {b['name']}: {b.get('evaluations')} evaluations, {b['failures']} failures")
    seen = set()
    for k, entry in res.known:
        if k['id'] not in seen:
            seen.add(k['id'])
            print(f"KNOWN-FINDING: property={pid} {k['id']}: {k.get('what','')}")
    if res.errors:
        for e in res.errors:
            print("CHECKER-ERROR:", e)
        if not res.violations:
            return 3
    if res.violations:
        for v in res.violations:
            tail = '' if v['confirmed'] else ' no-failing-input-found'
            print(f"   failed: {v['what']} ({v.get('detail')})")
            print(f"VIOLATION property={pid} replay={v['replay']}{tail}")
        return 1
    if res.undecided:
        for u in res.undecided:
            print("UNDECIDED:", u)
        return 2
    return 0


def do_replay(path):
    rec = json.load(open(path))
    pid = rec['property']
    P = load_prop(pid)
    for m in P.CONTRACTS:
        importlib.import_module(m)
    w = rec.get('witness')
    if w is None or not getattr(P, 'REPLAY', None):
        print(f"replay {path}: no concrete failing input was recorded (failed obligation: {rec.get('obligation')}); "
              f"solver output is in the file")
        return 0
    obs = P.REPLAY(w)
    print(json.dumps(obs, indent=1, default=str))
    if obs.get('confirmed'):
        print(f"VIOLATION property={pid} replay={path}")
        return 1
    print("not reproduced on the current tree")
    return 0


def main(argv):
    if '--list' in argv:
        for f in sorted(os.listdir(os.path.join(HERE, 'props'))):
            if f.startswith('C') and f.endswith('.py'):
                print(f[:-3])
        return 0
    if '--replay' in argv:
        return do_replay(argv[argv.index('--replay') + 1])
    tier = os.environ.get('VERIF_TIER', 'quick')
    if '--tier' in argv:
        tier = argv[argv.index('--tier') + 1]
    seed = int(os.environ.get('VERIF_SEED', '0') or 0)
    pids = [a for a in argv if a.startswith('C') and a[1:].isdigit()]
    if not pids:
        print(__doc__)
        return 3
    rc = 0
    for pid in pids:
        try:
            r = run_property(pid, tier, seed)
        except Exception as ex:   # noqa
            print("CHECKER-ERROR:", ex)
            traceback.print_exc()
            r = 3
        rc = max(rc, r) if r != 1 and rc != 1 else 1
    return rc


if __name__ == '__main__':
    sys.exit(main(sys.argv[1:]))
