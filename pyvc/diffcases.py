"""Concrete calls for the engine-vs-CPython differential check (pyvc.diffcheck): objects are built through the library's
own API (reachable states), a few states and arguments per function."""
import random


def _imp():
    import importlib
    import sys
    from . import frontend
    if frontend.REPO not in sys.path:
        sys.path.insert(0, frontend.REPO)
    return importlib.import_module


def cases(seed=0):
    imp = _imp()
    rng = random.Random(seed)
    W = imp('ixai.utils.tracker.welford').WelfordTracker
    E = imp('ixai.utils.tracker.exponential_smoothing').ExponentialSmoothingTracker
    SW = imp('ixai.utils.tracker.sliding_window').SlidingWindowTracker
    MVT = imp('ixai.utils.tracker.multi_value').MultiValueTracker
    out = []

    def fed(mk, vals):
        def make():
            t = mk()
            for v in vals:
                t.update(v)
            return t
        return make
    streams = [[], [2.0], [1.0, 3.0, -2.5], [0.0, 0.0, 4.0, 1.5]]
    for vals in streams:
        for v in (1.25, -3.0, 0.0):
            out.append(('WelfordTracker.update', lambda vals=vals, v=v: (fed(W, vals)(), {'value_i': v})))
            out.append(('ExponentialSmoothingTracker.update', lambda vals=vals, v=v: (fed(lambda: E(alpha=0.25), vals)(), {'value_i': v})))
        out.append(('Tracker.get', lambda vals=vals: (fed(W, vals)(), {})))
        out.append(('Tracker.var', lambda vals=vals: (fed(W, vals)(), {})))
        out.append(('Tracker.mean', lambda vals=vals: (fed(W, vals)(), {})))
    for k in (1, 3):
        for vals in ([], [1.0], [1.0, 2.0, 3.0], [1.0, 2.0, 3.0, 4.0, 5.0]):
            out.append(('SlidingWindowTracker.update', lambda k=k, vals=vals: (fed(lambda: SW(k=k), vals)(), {'value_i': 7.5})))
            if vals:
                out.append(('SlidingWindow.__call__', lambda k=k, vals=vals: (fed(lambda: SW(k=k), vals)(), {})))
    # multi-value tracker
    dicts = [[], [{'a': 1.0}], [{'a': 1.0, 'b': 2.0}, {'a': 3.0}], [{'a': 0.5}, {'b': -0.5, 1: 2.0}]]
    for base in (lambda: W(), lambda: E(alpha=0.5)):
        for hist in dicts:
            out.append(('MultiValueTracker.update', lambda base=base, hist=hist: (fed(lambda: MVT(base()), hist)(), {'values': {'a': 2.0, 'c': 1.0}})))
            out.append(('MultiValueTracker.get', lambda base=base, hist=hist: (fed(lambda: MVT(base()), hist)(), {})))
            out.append(('MultiValueTracker.get_normalized', lambda base=base, hist=hist: (fed(lambda: MVT(base()), hist)(), {})))
    # storages
    S = imp('ixai.storage')

    def stor(mk, n):
        def make():
            random.seed(seed + n)
            s = mk()
            for t in range(n):
                s.update({'f': float(t), 'g': 'v%d' % t}, y=t % 2)
            return s
        return make
    for st in (True, False):
        for n in (0, 1, 2, 3, 5):
            for name, mk in (('BatchStorage', lambda st=st: S.BatchStorage(store_targets=st)),
                             ('IntervalStorage', lambda st=st: S.IntervalStorage(store_targets=st, size=2)),
                             ('GeometricReservoirStorage', lambda st=st: S.GeometricReservoirStorage(store_targets=st, size=2, constant_probability=0.6)),
                             ('UniformReservoirStorage', lambda st=st: S.UniformReservoirStorage(store_targets=st, size=2))):
                out.append((name + '.update', lambda mk=mk, n=n: (stor(mk, n)(), {'x': {'f': 99.0, 'g': 'new'}, 'y': 1})))
            out.append(('Storage.__len__', lambda st=st, n=n: (stor(lambda: S.IntervalStorage(store_targets=st, size=2), n)(), {})))
            out.append(('IntervalStorage.get_data', lambda st=st, n=n: (stor(lambda: S.IntervalStorage(store_targets=st, size=2), n)(), {})))
            out.append(('Storage.get_data', lambda st=st, n=n: (stor(lambda: S.BatchStorage(store_targets=st), n)(), {})))
    # wrappers
    import numpy as np
    SK = imp('ixai.utils.wrappers').SklearnWrapper
    for arr in (np.array(2.0), np.array([2.0]), np.array([[2.0]]), np.array([1.0, 2.0, 3.0]), np.array([[1.0, 2.0]]), np.array([[1.0], [2.0]])):
        out.append(('Wrapper.convert_arr_output_to_dict', lambda arr=arr: (SK(lambda a: a), {'y_prediction': arr})))
    for names in (['b', 'a'], ['a']):
        out.append(('NamedWrapper.convert_1d_input_to_arr', lambda names=names: (SK(lambda a: a, feature_names=names), {'x_dict': {'a': 1.0, 'b': 'q', 'c': 3.0}})))
        out.append(('NamedWrapper.convert_2d_input_to_arr', lambda names=names: (SK(lambda a: a, feature_names=names),
                                                                                {'x_dicts': [{'a': 1.0, 'b': 'q'}, {'b': 'r', 'a': 2.0, 'z': 0}]})))
    # explainer helpers
    B = imp('ixai.explainer.base')
    for outs in ([{'output': 1.0}], [{'a': 0.25, 'b': 0.75}, {'a': 0.5, 'b': 0.5}], [{'a': 1.0}, {'b': 2.0}, {'a': 3.0, 'c': 1.0}]):
        out.append(('_get_mean_model_output', lambda outs=outs: (B._get_mean_model_output, {'model_outputs': outs})))
    for vals in ({'a': 1.0, 'b': 3.0}, {'a': -1.0, 'b': 1.0}, {'a': 0.0}, {'a': np.float64(2.0), 'b': 2.0}):
        for mode in ('sum', 'delta'):
            out.append(('Explainer._normalize_importance_values',
                        lambda vals=vals, mode=mode: (B.BaseIncrementalFeatureImportance._normalize_importance_values,
                                                      {'importance_values': dict(vals), 'mode': mode})))
    # imputers
    IM = imp('ixai.imputer')

    def model(x):
        return {'output': float(len(x))}
    for sub in ({'f'}, set(), {'f', 'g'}):
        out.append(('DefaultImputer.impute', lambda sub=sub: (IM.DefaultImputer(model, values={'f': -1.0, 'g': 'dflt'}),
                                                              {'feature_subset': set(sub), 'x_i': {'f': 5.0, 'g': 'cur', 'h': 1}, 'n_samples': 2})))
        out.append(('DefaultImputer.impute#list', lambda sub=sub: (IM.DefaultImputer(model, values={'f': -1.0, 'g': 'dflt'}),
                                                                   {'feature_subset': sorted(sub), 'x_i': {'f': 5.0, 'g': 'cur', 'h': 1}, 'n_samples': 2})))
        for strat in ('joint', 'product'):
            out.append(('MarginalImputer.impute', lambda sub=sub, strat=strat: (
                IM.MarginalImputer(model, strat, stor(lambda: S.BatchStorage(store_targets=False), 3)()),
                {'feature_subset': set(sub), 'x_i': {'f': 5.0, 'g': 'cur'}, 'n_samples': 2})))
    return out


def explainer_cases(seed=0):
    """reachable explainer states (built by real explain_one calls) for the functions of contracts.explainer / batch"""
    imp = _imp()
    import random as _r
    import numpy as np
    EX = imp('ixai.explainer')
    ST = imp('ixai.storage')
    IM = imp('ixai.imputer')
    out = []

    def model(x):
        return {'output': 2.0 * float(x['a']) - float(x['b'])}

    def loss(y, p):
        return (float(y) - p['output']) ** 2

    def built(kind, n, dynamic):
        def make():
            _r.seed(seed)
            np.random.seed(seed)
            st = ST.GeometricReservoirStorage(size=3, store_targets=False) if dynamic else ST.UniformReservoirStorage(size=3, store_targets=False)
            E = EX.IncrementalPFI if kind == 'pfi' else EX.IncrementalSage
            ex = E(model, loss, ['a', 'b'], storage=st, imputer=IM.MarginalImputer(model, 'joint', st), smoothing_alpha=0.5,
                   n_inner_samples=2, dynamic_setting=dynamic)
            rng = _r.Random(seed)
            for t in range(n):
                ex.explain_one({'a': rng.random(), 'b': rng.random()}, rng.random())
            return ex
        return make
    for kind, key in (('pfi', 'IncrementalPFI.explain_one'), ('sage', 'IncrementalSage.explain_one')):
        for n in (0, 1, 3):
            for dynamic in (False, True):
                out.append((key, lambda kind=kind, n=n, dynamic=dynamic: (built(kind, n, dynamic)(),
                                                                           {'x_i': {'a': 0.25, 'b': 0.75}, 'y_i': 1.0})))
    for n in (2, 3):
        out.append(('Explainer.importance_values', lambda n=n: (built('sage', n, True)(), {})))
        out.append(('Explainer.variances', lambda n=n: (built('pfi', n, False)(), {})))
        out.append(('Explainer.explained_loss', lambda n=n: (built('sage', n, False)(), {})))
        out.append(('Explainer.get_confidence_bound', lambda n=n: (built('pfi', n, True)(), {'delta': 0.1})))
    return out
