"""Concrete calls for the engine-vs-CPython differential check (pyvc.diffcheck): objects are built through the library's
own API (reachable states), a few states and arguments per function."""
import random


def _imp():
    import importlib
    import sys
    from . import frontend
    if frontend.REPO not in sys.path:
        sys.path.insert(0, frontend.REPO)
    return importlib.import_module


def cases(seed=0):
    imp = _imp()
    rng = random.Random(seed)
    W = imp('ixai.utils.tracker.welford').WelfordTracker
    E = imp('ixai.utils.tracker.exponential_smoothing').ExponentialSmoothingTracker
    SW = imp('ixai.utils.tracker.sliding_window').SlidingWindowTracker
    MVT = imp('ixai.utils.tracker.multi_value').MultiValueTracker
    out = []

    def fed(mk, vals):
        def make():
            t = mk()
            for v in vals:
                t.update(v)
            return t
        return make
    streams = [[], [2.0], [1.0, 3.0, -2.5], [0.0, 0.0, 4.0, 1.5]]
    for vals in streams:
        for v in (1.25, -3.0, 0.0):
            out.append(('WelfordTracker.update', lambda vals=vals, v=v: (fed(W, vals)(), {'value_i': v})))
            out.append(('ExponentialSmoothingTracker.update', lambda vals=vals, v=v: (fed(lambda: E(alpha=0.25), vals)(), {'value_i': v})))
        out.append(('Tracker.get', lambda vals=vals: (fed(W, vals)(), {})))
        out.append(('Tracker.var', lambda vals=vals: (fed(W, vals)(), {})))
        out.append(('Tracker.mean', lambda vals=vals: (fed(W, vals)(), {})))
    for k in (1, 3):
        for vals in ([], [1.0], [1.0, 2.0, 3.0], [1.0, 2.0, 3.0, 4.0, 5.0]):
            out.append(('SlidingWindowTracker.update', lambda k=k, vals=vals: (fed(lambda: SW(k=k), vals)(), {'value_i': 7.5})))
            if vals:
                out.append(('SlidingWindow.__call__', lambda k=k, vals=vals: (fed(lambda: SW(k=k), vals)(), {})))
    # multi-value tracker
    dicts = [[], [{'a': 1.0}], [{'a': 1.0, 'b': 2.0}, {'a': 3.0}], [{'a': 0.5}, {'b': -0.5, 1: 2.0}]]
    for base in (lambda: W(), lambda: E(alpha=0.5)):
        for hist in dicts:
            out.append(('MultiValueTracker.update', lambda base=base, hist=hist: (fed(lambda: MVT(base()), hist)(), {'values': {'a': 2.0, 'c': 1.0}})))
            out.append(('MultiValueTracker.get', lambda base=base, hist=hist: (fed(lambda: MVT(base()), hist)(), {})))
            out.append(('MultiValueTracker.get_normalized', lambda base=base, hist=hist: (fed(lambda: MVT(base()), hist)(), {})))
    # storages
    S = imp('ixai.storage')

    def stor(mk, n):
        def make():
            random.seed(seed + n)
            s = mk()
            for t in range(n):
                s.update({'f': float(t), 'g': 'v%d' % t}, y=t % 2)
            return s
        return make
    for st in (True, False):
        for n in (0, 1, 2, 3, 5):
            for name, mk in (('BatchStorage', lambda st=st: S.BatchStorage(store_targets=st)),
                             ('IntervalStorage', lambda st=st: S.IntervalStorage(store_targets=st, size=2)),
                             ('GeometricReservoirStorage', lambda st=st: S.GeometricReservoirStorage(store_targets=st, size=2, constant_probability=0.6)),
                             ('UniformReservoirStorage', lambda st=st: S.UniformReservoirStorage(store_targets=st, size=2))):
                out.append((name + '.update', lambda mk=mk, n=n: (stor(mk, n)(), {'x': {'f': 99.0, 'g': 'new'}, 'y': 1})))
            out.append(('Storage.__len__', lambda st=st, n=n: (stor(lambda: S.IntervalStorage(store_targets=st, size=2), n)(), {})))
            out.append(('IntervalStorage.get_data', lambda st=st, n=n: (stor(lambda: S.IntervalStorage(store_targets=st, size=2), n)(), {})))
            out.append(('Storage.get_data', lambda st=st, n=n: (stor(lambda: S.BatchStorage(store_targets=st), n)(), {})))
    # wrappers
    import numpy as np
    SK = imp('ixai.utils.wrappers').SklearnWrapper
    for arr in (np.array(2.0), np.array([2.0]), np.array([[2.0]]), np.array([1.0, 2.0, 3.0]), np.array([[1.0, 2.0]]), np.array([[1.0], [2.0]])):
        out.append(('Wrapper.convert_arr_output_to_dict', lambda arr=arr: (SK(lambda a: a), {'y_prediction': arr})))
    for names in (['b', 'a'], ['a']):
        out.append(('NamedWrapper.convert_1d_input_to_arr', lambda names=names: (SK(lambda a: a, feature_names=names), {'x_dict': {'a': 1.0, 'b': 'q', 'c': 3.0}})))
        out.append(('NamedWrapper.convert_2d_input_to_arr', lambda names=names: (SK(lambda a: a, feature_names=names),
                                                                                {'x_dicts': [{'a': 1.0, 'b': 'q'}, {'b': 'r', 'a': 2.0, 'z': 0}]})))
    # explainer helpers
    B = imp('ixai.explainer.base')
    for outs in ([{'output': 1.0}], [{'a': 0.25, 'b': 0.75}, {'a': 0.5, 'b': 0.5}], [{'a': 1.0}, {'b': 2.0}, {'a': 3.0, 'c': 1.0}]):
        out.append(('_get_mean_model_output', lambda outs=outs: (B._get_mean_model_output, {'model_outputs': outs})))
    for vals in ({'a': 1.0, 'b': 3.0}, {'a': -1.0, 'b': 1.0}, {'a': 0.0}, {'a': np.float64(2.0), 'b': 2.0}):
        for mode in ('sum', 'delta'):
            out.append(('Explainer._normalize_importance_values',
                        lambda vals=vals, mode=mode: (B.BaseIncrementalFeatureImportance._normalize_importance_values,
                                                      {'importance_values': dict(vals), 'mode': mode})))
    # imputers
    IM = imp('ixai.imputer')

    def model(x):
        return {'output': float(len(x))}
    for sub in ({'f'}, set(), {'f', 'g'}):
        out.append(('DefaultImputer.impute', lambda sub=sub: (IM.DefaultImputer(model, values={'f': -1.0, 'g': 'dflt'}),
                                                              {'feature_subset': set(sub), 'x_i': {'f': 5.0, 'g': 'cur', 'h': 1}, 'n_samples': 2})))
        out.append(('DefaultImputer.impute#list', lambda sub=sub: (IM.DefaultImputer(model, values={'f': -1.0, 'g': 'dflt'}),
                                                                   {'feature_subset': sorted(sub), 'x_i': {'f': 5.0, 'g': 'cur', 'h': 1}, 'n_samples': 2})))
        for strat in ('joint', 'product'):
            out.append(('MarginalImputer.impute', lambda sub=sub, strat=strat: (
                IM.MarginalImputer(model, strat, stor(lambda: S.BatchStorage(store_targets=False), 3)()),
                {'feature_subset': set(sub), 'x_i': {'f': 5.0, 'g': 'cur'}, 'n_samples': 2})))
    return out
