"""pyvc - a small verification-condition generator for the subset of Python iXAI is written in.

Reads the real source under /repo with `ast` on every run, symbolically executes one function at a
time against sidecar contracts (callee contracts, never callee bodies; loops cut by invariants;
exceptions as control flow) and emits proof obligations as SMT formulas (z3, cvc5).
"""
