"""Trusted library contracts: Python built-ins/containers, random, NumPy primitives, callbacks.

Every primitive has its raising cases spelled out.  Random primitives are havoc with a range
contract and are recorded in the run's event list (ghost draw list).  Each contract used on some
path is collected into `run.trusted` and ends up in the evidence of the property.
"""
import z3

from . import sym, lemmas
from .sym import (SV, SNum, SBool, SKey, SVal, SFn, SDict, SSet, SList, STuple, SObj, NONE, TInt, TNum, TNumK, SNDArray, TNDArray, SOutArr, TOutArr,
                  TBool, TKey, TVal, TFn, TDict, TSet, TList, TTuple, TObj, pack, snapshot, fresh_name)


def _sx():
    from . import symex
    return symex


class DictView(SV):
    """d.values() / d.keys() / d.items() of a snapshot of d (arbitrary iteration order)"""

    def __init__(self, d, what):
        self.d, self.what = d, what
        self.typ = None


def unknown_order_list(run, dv):
    """list(d.values()) / list(d) of a dict whose insertion order is not known: a list of unknown length and order all of
    whose elements are values (keys) of d - a sound over-approximation"""
    sx = _sx()
    d = dv.d
    if dv.what == 'values':
        et = d.typ.v
    elif dv.what == 'keys':
        et = d.typ.k
    else:
        raise sx.Unsupported("list of dict items")
    lt = TList(et)
    res = run.fresh(lt, 'dlist')
    i = z3.Int(fresh_name('di'))
    k = z3.Const(fresh_name('dk'), d.typ.k.sort())
    el = res.arr[i]
    hit = z3.And(d.dom[k], (d.val[k] == el) if dv.what == 'values' else (k == el))
    run.assume(sym.forall([i], z3.Implies(z3.And(i >= 0, i < res.n), z3.Exists([k], hit)), [res.arr[i]]))
    run.trusted.add('list(dict view) without a known insertion order: some arrangement of the entries')
    return res


class NDArray(SV):
    """1-d float ndarray model: a list plus the `nan` mask convention (entry is NaN iff nan[i])"""

    def __init__(self, lst, nan):
        self.lst, self.nan = lst, nan
        self.typ = None


Card = {}


def card(st, dom):
    if st.name not in Card:
        Card[st.name] = z3.Function('card_' + st.name, dom.sort(), z3.IntSort())
    return Card[st.name](dom)


def card_facts(ksort, c, dom):
    a = z3.Const(fresh_name('ca'), ksort)
    b = z3.Const(fresh_name('cb'), ksort)
    empty = z3.K(ksort, z3.BoolVal(False))
    return [c >= 0, (c == 0) == (dom == empty),
            (c <= 1) == sym.forall([a, b], z3.Implies(z3.And(dom[a], dom[b]), a == b)),
            z3.Implies(c == 0, sym.forall([a], z3.Not(dom[a])))]


EXP = z3.Function('np_exp', z3.RealSort(), z3.RealSort())
LOG = z3.Function('np_log', z3.RealSort(), z3.RealSort())
FLOOR = z3.Function('np_floor', z3.RealSort(), z3.RealSort())
STR_OF = z3.Function('str_of', sym.KeyS, sym.KeyS)
IS_NUM = z3.Function('is_num_key', sym.KeyS, z3.BoolSort())
MMAX = {}


_FLOAT_PROBE = None


def float_of_size1_array_ok():
    """library contract probed on the installed NumPy: does float() accept a size-one array with ndim > 0?"""
    global _FLOAT_PROBE
    if _FLOAT_PROBE is None:
        import warnings
        import numpy as np
        with warnings.catch_warnings():
            warnings.simplefilter('error')
            try:
                float(np.array([1.0]))
                _FLOAT_PROBE = True
            except Exception:   # noqa
                _FLOAT_PROBE = False
    return _FLOAT_PROBE


STRNUM = z3.Function('float_of_str', sym.KeyS, z3.RealSort())
IS_NUMSTR = z3.Function('is_numeric_str', sym.KeyS, z3.BoolSort())


def float_of(run, a):
    sx = _sx()
    if isinstance(a, SOutArr):
        ok1 = float_of_size1_array_ok()
        run.trusted.add(f"library contract (probed on the installed NumPy): float(ndarray) succeeds iff ndim == 0"
                        + (" or size == 1" if ok1 else ""))
        conv = a.ndim == 0 if not ok1 else z3.Or(a.ndim == 0, a.size == 1)
        run.may_raise(z3.Not(conv), 'TypeError', 'only 0-dimensional arrays can be converted to Python scalars')
        run.may_raise(a.isstr, 'ValueError', 'could not convert string to float')
        return SNum(z3.simplify(a.data[0]))
    if isinstance(a, SKey):
        run.may_raise(z3.Not(IS_NUMSTR(a.t)), 'ValueError', 'could not convert string to float')
        return SNum(STRNUM(a.t))
    if isinstance(a, (SDict, SList)) or a is NONE:
        raise sx.PyRaise('TypeError', 'float() argument must be a string or a real number')
    return None


def load_item(run, c, k):
    if isinstance(c, SOutArr):
        # element of a 1-d array / row of a 2-d array
        if not isinstance(k, SNum) or not k.is_int:
            raise _sx().Unsupported("ndarray index")
        i = k.t
        run.may_raise(c.ndim == 0, 'IndexError', 'too many indices for array')
        run.may_raise(z3.Or(i >= c.d0, i < -c.d0), 'IndexError')
        i = z3.simplify(z3.If(i < 0, i + c.d0, i))
        if z3.is_true(z3.simplify(c.ndim == 1)):
            return SNum(z3.simplify(c.data[i]), np=z3.BoolVal(True))
        sh = run.fresh_const(z3.ArraySort(z3.IntSort(), z3.RealSort()), 'row')
        j = z3.Int(fresh_name('rj'))
        run.assume(sym.forall([j], sh[j] == c.data[i * c.d1 + j], [sh[j]]))
        # ndim 1 -> a 0-d element; ndim 2 -> the i-th row
        return SOutArr(TOutArr, TOutArr.mk(c.ndim - 1, z3.If(c.ndim == 2, c.d1, 1), z3.IntVal(1), sh, c.isstr))
    if isinstance(c, SNDArray):
        idx = run.index(c, k)
        return SNum(z3.simplify(c.arr[idx]), np=z3.BoolVal(True), fin=z3.Not(c.nan[idx]))
    return None


# finite numeric constants of the standard library (binary64 values, as exact rationals)
NUMERIC_CONSTANTS = {'sys.float_info.epsilon': str(__import__('fractions').Fraction(2.0 ** -52)),
                     'sys.float_info.min': str(__import__('fractions').Fraction(__import__('sys').float_info.min)),
                     'sys.float_info.max': str(__import__('fractions').Fraction(__import__('sys').float_info.max)),
                     'math.pi': str(__import__('fractions').Fraction(__import__('math').pi)),
                     'math.e': str(__import__('fractions').Fraction(__import__('math').e)),
                     'numpy.pi': str(__import__('fractions').Fraction(__import__('math').pi))}
VALUE_ATTRS = {'numpy.nan', 'numpy.NaN', 'numpy.NAN', 'numpy.inf', 'numpy.Inf'}


def module_value(run, path):
    """a module attribute used as a value.  Environment obligation: the attribute must exist in the INSTALLED library
    (decided concretely when the VC is generated): a missing attribute raises AttributeError, as in CPython"""
    import importlib
    modname, attr = path.rsplit('.', 1)
    try:
        mod = importlib.import_module(modname)
    except ImportError:
        raise _sx().Unsupported("module " + modname + " not importable for the environment obligation")
    run.trusted.add(f"environment: attribute {path} looked up in the installed {modname} {getattr(mod, '__version__', '')}")
    if not hasattr(mod, attr):
        raise _sx().PyRaise('AttributeError', f"module '{modname}' has no attribute '{attr}' (installed version {getattr(mod, '__version__', '?')})")
    v = SNum(z3.RealVal(0), np=z3.BoolVal(True), fin=z3.BoolVal(False))
    v.isnan = attr.lower() == 'nan'
    return v


def contains(run, c, x):
    if isinstance(c, DictView) and c.what == 'keys':
        return c.d.dom[run.key_term(x, c.d.typ.k)]
    return None


def binop(run, op, a, b, inplace):
    sx = _sx()
    if op == 'Add' and isinstance(a, (SList, sx.PyList)) and isinstance(b, (SList, sx.PyList)):
        if isinstance(a, sx.PyList) and isinstance(b, sx.PyList):
            return sx.PyList(a.items + b.items)
        if isinstance(a, SList) and isinstance(b, SList) and a.typ == b.typ:
            r = run.fresh(a.typ, 'concat')
            i = z3.Int(fresh_name('ci'))
            run.assume(r.n == a.n + b.n,
                       sym.forall([i], z3.Implies(z3.And(i >= 0, i < a.n), r.arr[i] == a.arr[i]), [r.arr[i]]),
                       sym.forall([i], z3.Implies(z3.And(i >= 0, i < b.n), r.arr[a.n + i] == b.arr[i])))
            return r
    return None


# ------------------------------------------------------------------------------------------------
# module-level functions
# ------------------------------------------------------------------------------------------------
def call_module(run, path, args, kwargs, node):
    sx = _sx()
    name = path
    if name.startswith('builtins.'):
        return call_builtin(run, name[9:], args, kwargs, node)
    run.trusted.add('library contract: ' + name)
    if name == 'copy.deepcopy':
        v = args[0]
        if isinstance(v, SV):
            return snapshot(v)
        raise sx.Unsupported("deepcopy of " + repr(v))
    if name == 'copy.copy':
        # SHALLOW: a new object whose attributes are the SAME objects (mutable attributes stay shared)
        v = args[0]

        def _mutable(t):
            return isinstance(t, (TDict, TSet, TList, sym.TObj)) or t is TNDArray
        if isinstance(v, SObj) and v.fields is not None:
            return SObj(v.cls, fields=dict(v.fields))
        if isinstance(v, SObj):
            if any(_mutable(t) for t in v.spec().all_fields().values()):
                raise sx.Unsupported("shallow copy of an object held in a container (sharing of its mutable attributes is outside the value model)")
            return snapshot(v)
        if isinstance(v, (SDict, SList, SSet)):
            et = v.typ.v if isinstance(v, SDict) else (v.typ.e if isinstance(v, SList) else None)
            if et is not None and _mutable(et):
                raise sx.Unsupported("shallow copy of a container of mutable objects")
            return snapshot(v)
        if isinstance(v, SV):
            return v
        raise sx.Unsupported("copy of " + repr(v))
    if name == 'random.random':
        u = run.fresh_const(z3.RealSort(), 'u')
        run.pc += [u >= 0, u < 1]
        run.events.append({'kind': 'draw', 'prim': 'random.random', 'value': u, 'line': run.cur_line})
        run.bump('random.random')
        return SNum(u)
    if name == 'random.randrange':
        if len(args) != 1 or kwargs:
            raise sx.Unsupported("randrange with other than one argument")
        n = args[0]
        run.may_raise(n.t <= 0, 'ValueError', 'randrange(n<=0)')
        r = run.fresh_const(z3.IntSort(), 'rr')
        run.pc += [r >= 0, r < n.t]
        run.events.append({'kind': 'draw', 'prim': 'random.randrange', 'arg': n.t, 'value': r, 'line': run.cur_line,
                           'uniform_int': True, 'lo': z3.IntVal(0), 'hi': n.t - 1})
        run.bump('random.randrange')
        run.bump('uniform_int')
        return SNum(r)
    if name == 'random.randint':
        a, b = args
        run.may_raise(a.t > b.t, 'ValueError', 'randint(a>b)')
        r = run.fresh_const(z3.IntSort(), 'ri')
        run.pc += [r >= a.t, r <= b.t]
        run.events.append({'kind': 'draw', 'prim': 'random.randint', 'arg': (a.t, b.t), 'value': r,
                           'line': run.cur_line, 'uniform_int': True, 'lo': a.t, 'hi': b.t})
        run.bump('random.randint')
        run.bump('uniform_int')
        return SNum(r)
    if name in ('numpy.exp', 'numpy.log', 'numpy.floor'):
        f = {'numpy.exp': EXP, 'numpy.log': LOG, 'numpy.floor': FLOOR}[name]
        return SNum(f(args[0].real()), np=z3.BoolVal(True), fin=args[0].fin if args[0].fin is not None else z3.BoolVal(True))
    if name == 'numpy.random.permutation':
        return np_permutation(run, args[0])
    if name == 'numpy.random.normal':
        r = run.fresh_const(z3.RealSort(), 'nrm')
        run.events.append({'kind': 'draw', 'prim': 'np.random.normal', 'value': r, 'line': run.cur_line})
        run.bump('np.random.normal')
        return SNum(r)
    if name == 'numpy.mean':
        lst = args[0]
        if isinstance(lst, SList) and lst.typ.e in (TNum, TInt):
            r = run.fresh_const(z3.RealSort(), 'mean')
            run.pc.append(z3.Implies(lst.n > 0, r * z3.ToReal(lst.n) == lemmas.ssum(lst.arr, lst.n)))
            return SNum(r)
        raise sx.Unsupported("np.mean of " + repr(lst))
    if name in ('math.isclose', 'numpy.isclose') and len(args) == 2 and all(isinstance(a, SNum) for a in args):
        # math.isclose: |a-b| <= max(rel_tol*max(|a|,|b|), abs_tol)   (defaults 1e-09, 0.0)
        # numpy.isclose (scalars): |a-b| <= atol + rtol*|b|           (defaults 1e-05, 1e-08)
        def _abs(t):
            return z3.If(t >= 0, t, -t)

        def _kw(nm, dflt):
            v = kwargs.get(nm)
            if v is None:
                return z3.RealVal(dflt)
            if not isinstance(v, SNum):
                raise sx.Unsupported(name + ' tolerance')
            return v.real()
        a, b = args[0].real(), args[1].real()
        if name == 'math.isclose':
            rel, ab = _kw('rel_tol', '1e-9'.replace('1e-9', '0.000000001')), _kw('abs_tol', '0')
            if not z3.is_rational_value(z3.simplify(rel)):
                raise sx.Unsupported('math.isclose with a symbolic rel_tol')
            m = z3.If(_abs(a) >= _abs(b), _abs(a), _abs(b))
            bound = z3.If(rel * m >= ab, rel * m, ab)
            return SBool(_abs(a - b) <= bound)
        rt, at = _kw('rtol', '0.00001'), _kw('atol', '0.00000001')
        if not z3.is_rational_value(z3.simplify(rt)):
            raise sx.Unsupported('numpy.isclose with a symbolic rtol')
        return SBool(_abs(a - b) <= at + rt * _abs(b))
    if name == 'math.sqrt':
        a = args[0]
        run.may_raise(a.t < 0, 'ValueError', 'math.sqrt of a negative number')
        return sqrt(run, a)
    if name in ('warnings.warn', 'warnings.filterwarnings'):
        return NONE
    if name == 'collections.deque':
        if args or kwargs:
            raise sx.Unsupported("deque with arguments")
        return sx.PyList([])
    if name == 'tqdm.tqdm':
        return args[0]
    if name in ('numpy.nan', 'numpy.NaN'):
        raise sx.Unsupported(name + " called")
    if name in ('numpy.array', 'numpy.asarray'):
        return np_array(run, args[0])
    if name in ('numpy.ndim', 'numpy.size') and len(args) == 1 and isinstance(args[0], SOutArr):
        return SNum(args[0].ndim if name == 'numpy.ndim' else args[0].size)
    if name in ('numpy.asarray', 'numpy.array') and len(args) == 1 and isinstance(args[0], SOutArr):
        return args[0]
    if name in ('numpy.nanmean', 'numpy.nanvar', 'numpy.nanstd'):
        return np_nanstat(run, name.split('.')[1], args[0])
    if name in ('math.exp', 'math.log', 'math.floor', 'math.log1p') and len(args) == 1 and isinstance(args[0], SNum):
        x = args[0].real()
        if name == 'math.log1p':
            return SNum(LOG(1 + x))
        if name == 'math.floor':
            return SNum(FLOOR(x))
        return SNum({'math.exp': EXP, 'math.log': LOG}[name](x))
    if name.startswith('ixai.'):
        # a module-level helper of the library without a contract: its body (read from its module) is executed in place
        r = run.inline_module_function(name, args, kwargs)
        if r is not sx._NO_HELPER:
            return r
    raise sx.Unsupported(f"line {run.cur_line}: library function {name}")


def module_attr(run, path):
    """value of a module attribute used as a value (not called), e.g. np.nan"""
    return None


SQRT = z3.Function('sqrt', z3.RealSort(), z3.RealSort())


def sqrt(run, a):
    """the non-negative root: r >= 0 and r*r = x (for x >= 0).  sqrt is a function, so equal
    arguments give equal roots; uniqueness of the non-negative root is an arithmetic fact"""
    r = SQRT(a.real())
    run.pc += [r >= 0, z3.Implies(a.real() >= 0, r * r == a.real())]
    run.trusted.add('library contract: sqrt is the non-negative real root')
    return SNum(r, a.np, a.fin)


SQF = z3.Function('sq', z3.RealSort(), z3.RealSort())


def square(run, a):
    """x ** 2 as the named term sq(x) with the ground facts sq(x) = x*x and sq(x) >= 0: equal arguments give equal squares
    by congruence, without nonlinear reasoning"""
    x = a.real()
    r = SQF(x)
    run.assume(r == x * x, r >= 0)
    return SNum(r, a.np, a.fin)


POW = z3.Function('rpow', z3.RealSort(), z3.RealSort(), z3.RealSort())


def power(run, a, b):
    """a ** b for a symbolic exponent: uninterpreted, with the facts used for confidence bounds"""
    sx = _sx()
    r = POW(a.real(), b.real())
    # 0 <= a <= 1 and b >= 0  =>  0 <= a**b <= 1 ;  a > 0 => a**b > 0 ; b == 0 => 1
    run.pc += [z3.Implies(z3.And(a.real() >= 0, a.real() <= 1, b.real() >= 0), z3.And(r >= 0, r <= 1)),
               z3.Implies(a.real() > 0, r > 0),
               z3.Implies(z3.And(a.real() == 0, b.real() > 0), r == 0),
               z3.Implies(b.real() == 0, r == 1)]
    run.trusted.add('library contract: real power a**b (bounds for 0<=a<=1, positivity)')
    return SNum(r)


def np_permutation(run, x):
    """np.random.permutation(seq): a permutation of the NumPy-coerced elements of seq.
    Coercion (np.asarray of a list): a list mixing str with numbers becomes all-str, so every
    number n turns into str(n) != n; otherwise elements stay ==/hash-equal."""
    sx = _sx()
    if isinstance(x, SNum) and x.is_int:
        return np_permutation_range(run, x)
    if isinstance(x, sx.PyList):
        x = run.make_list(x.items)
    if not isinstance(x, SList) or x.typ.e is not TKey:
        raise sx.Unsupported("permutation of " + repr(x))
    n = x.n
    res = run.fresh(x.typ, 'perm')
    sig = z3.Const(fresh_name('sigma'), z3.ArraySort(z3.IntSort(), z3.IntSort()))
    inv = z3.Const(fresh_name('sigma_inv'), z3.ArraySort(z3.IntSort(), z3.IntSort()))
    i = z3.Int(fresh_name('pi'))
    j = z3.Int(fresh_name('pj'))
    a = z3.Int(fresh_name('pa'))
    b = z3.Int(fresh_name('pb'))
    mixed = z3.And(z3.Exists([a], z3.And(a >= 0, a < n, IS_NUM(x.arr[a]))),
                   z3.Exists([b], z3.And(b >= 0, b < n, z3.Not(IS_NUM(x.arr[b])))))
    coerced = lambda k: z3.If(z3.And(mixed, IS_NUM(k)), STR_OF(k), k)
    run.pc += [res.n == n,
               sym.forall([i], z3.Implies(z3.And(i >= 0, i < n),
                                         z3.And(sig[i] >= 0, sig[i] < n, inv[sig[i]] == i,
                                                res.arr[i] == coerced(x.arr[sig[i]]))),
                         [res.arr[i]]),
               sym.forall([j], z3.Implies(z3.And(j >= 0, j < n), z3.And(inv[j] >= 0, inv[j] < n, sig[inv[j]] == j)),
                         [inv[j]]),
               sym.forall([i], z3.And(z3.Not(IS_NUM(STR_OF(i_key(i)))), STR_OF(i_key(i)) != i_key(i))) if False
               else z3.BoolVal(True)]
    k = z3.Const(fresh_name('pk'), sym.KeyS)
    run.pc.append(sym.forall([k], z3.Implies(IS_NUM(k), z3.And(z3.Not(IS_NUM(STR_OF(k))), STR_OF(k) != k)),
                            [STR_OF(k)]))
    run.events.append({'kind': 'draw', 'prim': 'np.random.permutation', 'arg': x.get(), 'value': res.get(),
                       'sigma': sig, 'sigma_inv': inv, 'line': run.cur_line})
    run.bump('np.random.permutation')
    run.trusted.add('library contract: np.random.permutation = permutation of the NumPy-coerced elements')
    return res


def np_permutation_range(run, nn):
    """np.random.permutation(n) for an int n: a permutation of range(n) (values in range, pairwise distinct, onto)"""
    n = nn.t
    run.may_raise(n < 0, 'ValueError', 'permutation of a negative number')
    lt = TList(TInt)
    res = run.fresh(lt, 'iperm')
    inv = z3.Const(fresh_name('iperm_inv'), z3.ArraySort(z3.IntSort(), z3.IntSort()))
    i = z3.Int(fresh_name('pi'))
    j = z3.Int(fresh_name('pj'))
    run.pc += [res.n == n,
               sym.forall([i], z3.Implies(z3.And(i >= 0, i < n), z3.And(res.arr[i] >= 0, res.arr[i] < n, inv[res.arr[i]] == i)),
                          [res.arr[i]]),
               sym.forall([j], z3.Implies(z3.And(j >= 0, j < n), z3.And(inv[j] >= 0, inv[j] < n, res.arr[inv[j]] == j)),
                          [inv[j]]),
               # consequences of the bijection, stated explicitly: pairwise distinct
               sym.forall([i, j], z3.Implies(z3.And(i >= 0, i < j, j < n), res.arr[i] != res.arr[j]))]
    run.events.append({'kind': 'draw', 'prim': 'np.random.permutation', 'arg': n, 'value': res.get(), 'inverse': inv,
                       'line': run.cur_line})
    run.bump('np.random.permutation')
    run.trusted.add('library contract: np.random.permutation(n) = a permutation of range(n)')
    return res


def i_key(i):
    return z3.Const('unused', sym.KeyS)


RowT = TList(TVal)
MatT = TList(RowT)


def np_array(run, x):
    sx = _sx()
    if isinstance(x, SOutArr):
        return x
    if isinstance(x, DictView) and x.what == 'values' and x.d.typ.v is TVal:
        x = unknown_order_list(run, x)
    if isinstance(x, SList) and x.typ.e is TVal:
        a = SList(x.typ, x.get())
        a.is_1d_array = True          # a 1-d object array of feature values
        return a
    if isinstance(x, SList) and x.typ == MatT:
        return SList(MatT, x.get())   # a 2-d array: the list of its rows
    if isinstance(x, SList) and x.typ.e in (TNum,):
        nan = getattr(x, 'nan_mask', None)
        if nan is None:
            nan = z3.K(z3.IntSort(), z3.BoolVal(False))
        return SNDArray(TNDArray, TNDArray.mk(x.n, x.arr, nan))
    raise sx.Unsupported("np.array of " + repr(x))


NANSTAT = {w: z3.Function('np_' + w, TNDArray.sort(), z3.RealSort()) for w in ('nanmean', 'nanvar', 'nanstd')}


def np_nanstat(run, which, arr):
    """np.nanmean / nanvar / nanstd: a function of the array content (the statistic of its non-NaN entries)"""
    sx = _sx()
    if not isinstance(arr, SNDArray):
        raise sx.Unsupported(which + " of " + repr(arr))
    run.trusted.add(f"library contract: np.{which} = the statistic of the non-NaN entries")
    return SNum(NANSTAT[which](arr.get()), np=z3.BoolVal(True))


# ------------------------------------------------------------------------------------------------
# builtins
# ------------------------------------------------------------------------------------------------
def call_builtin(run, name, args, kwargs, node):
    sx = _sx()
    if name == 'len':
        x = args[0]
        if isinstance(x, SList):
            return SNum(x.n)
        if isinstance(x, (SDict, SSet)):
            ks = x.typ.k.sort()
            c = card(x.typ.k, x.dom)
            run.assume(*card_facts(ks, c, x.dom))
            return SNum(c)
        if isinstance(x, sx.PyList):
            return SNum(len(x.items))
        if isinstance(x, STuple):
            return SNum(len(x.items))
        if isinstance(x, sx.PyEmptyDict):
            return SNum(0)
        if isinstance(x, DictView):
            return call_builtin(run, 'len', [x.d], {}, node)
        if isinstance(x, SOutArr):
            run.may_raise(x.ndim == 0, 'TypeError', 'len() of unsized object')
            return SNum(x.d0)
        if isinstance(x, SObj):
            key = run.resolve_method(x.cls, '__len__')
            if key:
                return run.call_contract(sx.FUNCS[key], x, [], {})
        raise sx.Unsupported("len of " + repr(x))
    if name == 'sum':
        return do_sum(run, args[0])
    if name in ('max', 'min'):
        if len(args) == 2 and all(isinstance(a, SNum) for a in args):
            a, b = args
            if a.is_int and b.is_int:
                c = a.t >= b.t if name == 'max' else a.t <= b.t
                return SNum(z3.If(c, a.t, b.t))
            c = a.real() >= b.real() if name == 'max' else a.real() <= b.real()
            return SNum(z3.If(c, a.real(), b.real()), sx._or_flag(a.np, b.np), sx._and_flag(a.fin, b.fin))
        if len(args) == 1:
            return do_extremum(run, name, args[0])
        raise sx.Unsupported(name + " with these arguments")
    if name == 'abs':
        a = args[0]
        return SNum(z3.If(a.t >= 0, a.t, -a.t), a.np, a.fin)
    if name == 'float':
        a = args[0]
        r = float_of(run, a)
        if r is not None:
            return r
        if isinstance(a, SNum):
            return SNum(a.real(), None if a.np is None else z3.BoolVal(False), a.fin)
        raise sx.Unsupported("float of " + repr(a))
    if name == 'int':
        a = args[0]
        if isinstance(a, SNum) and a.is_int:
            return a
        if isinstance(a, SNum):
            # truncation toward zero
            x = a.real()
            return SNum(z3.If(x >= 0, z3.ToInt(x), -z3.ToInt(-x)))
        raise sx.Unsupported("int of " + repr(a))
    if name == 'round' and len(args) == 1 and isinstance(args[0], SNum):
        a = args[0]
        if a.is_int:
            return a
        # nearest integer (ties to even are left open: any nearest integer)
        r = run.fresh_const(z3.IntSort(), 'round')
        x = a.real()
        run.assume(z3.ToReal(r) - x <= z3.RealVal('1/2'), x - z3.ToReal(r) <= z3.RealVal('1/2'))
        return SNum(r)
    if name == 'str':
        a = args[0]
        if isinstance(a, SKey):
            return SKey(STR_OF(a.t))
        return SKey(run.fresh_const(sym.KeyS, 'str'))
    if name == 'set':
        if not args:
            return sx.PyEmptySet() if hasattr(sx, 'PyEmptySet') else _empty_set(run)
        return to_set(run, args[0])
    if name == 'list':
        if not args:
            return sx.PyList([])
        x = args[0]
        if isinstance(x, SList):
            return SList(x.typ, x.get())
        if isinstance(x, sx.PyList):
            return sx.PyList(x.items)
        if isinstance(x, DictView) and x.what == 'values' and getattr(x.d, 'order', None) is not None:
            # a dict built by a comprehension over a sequence keeps that order (insertion order), provided the keys
            # are pairwise distinct - which is an obligation here
            n, index, kt, vt, vtyp = x.d.order
            i2 = z3.Int(fresh_name('oj'))
            run.oblige(f"{run.fspec.key}/ordered_dict_keys_distinct@{run.cur_line}",
                       sym.forall([index, i2], z3.Implies(z3.And(index >= 0, index < i2, i2 < n),
                                                          kt != z3.substitute(kt, (index, i2)))),
                       kind='call_pre', clause='ordered_dict_keys_distinct', function=run.fspec.key)
            lt = TList(vtyp)
            res = run.fresh(lt, 'ovals')
            run.assume(res.n == n, sym.forall([index], z3.Implies(z3.And(index >= 0, index < n), res.arr[index] == vt), [res.arr[index]]))
            run.trusted.add('library contract: dicts preserve insertion order')
            return res
        if isinstance(x, DictView):
            return x
        if isinstance(x, SDict):
            return DictView(SDict(x.typ, x.get()), 'keys')
        raise sx.Unsupported("list of " + repr(x))
    if name == 'dict':
        if not args:
            return sx.PyEmptyDict()
    if name == 'range':
        if len(args) == 1:
            lo, hi = z3.IntVal(0), args[0].t
        elif len(args) == 2:
            lo, hi = args[0].t, args[1].t
        else:
            raise sx.Unsupported("range with a step")
        n = z3.If(hi >= lo, hi - lo, 0)
        return sx.Iter('seq', n=z3.simplify(n), at=lambda i: SNum(z3.simplify(lo + i)))
    if name == 'tuple' and len(args) == 1 and isinstance(args[0], (SList, SSet)):
        return args[0]              # an immutable view of the same elements (nothing in the library mutates it)
    if name == 'dict' and len(args) == 1 and not kwargs and isinstance(args[0], SDict):
        return SDict(args[0].typ, args[0].get())

    if name == 'dict.fromkeys' and len(args) in (1, 2) and not kwargs:
        keys = to_set(run, args[0])
        if keys.typ.k is not TKey:
            raise sx.Unsupported("dict.fromkeys over non-key elements")
        v = args[1] if len(args) == 2 else NONE
        if not isinstance(v, SNum):
            raise sx.Unsupported("dict.fromkeys with a non-numeric value")
        vt = TNumK if v.np is not None else TNum
        dt = TDict(TKey, vt)
        return SDict(dt, dt.mk(keys.dom, z3.K(sym.KeyS, pack(v, vt))))
    if name == 'sorted' and len(args) == 1 and not kwargs:
        x = args[0]
        if isinstance(x, DictView) and x.what == 'keys':
            x = x.d
        dom = x.dom if isinstance(x, (SDict, SSet)) else None
        ktyp = x.typ.k if isinstance(x, (SDict, SSet)) else None
        if dom is not None and ktyp is TKey:
            # the keys in ascending order: a duplicate-free list of exactly the keys; str and numbers do not compare
            k1 = z3.Const(fresh_name('sk'), sym.KeyS)
            k2 = z3.Const(fresh_name('sk'), sym.KeyS)
            run.may_raise(z3.Exists([k1, k2], z3.And(dom[k1], dom[k2], IS_NUM(k1), z3.Not(IS_NUM(k2)))), 'TypeError',
                          "'<' not supported between instances of 'str' and 'int'")
            lt = TList(TKey)
            res = run.fresh(lt, 'sorted')
            i = z3.Int(fresh_name('si'))
            j = z3.Int(fresh_name('sj'))
            run.assume(sym.forall([i], z3.Implies(z3.And(i >= 0, i < res.n), dom[res.arr[i]]), [res.arr[i]]),
                       sym.forall([i, j], z3.Implies(z3.And(i >= 0, i < j, j < res.n), res.arr[i] != res.arr[j])),
                       sym.forall([k1], z3.Implies(dom[k1], z3.Exists([i], z3.And(i >= 0, i < res.n, res.arr[i] == k1))), [dom[k1]]))
            run.trusted.add('library contract: sorted(keys) is a duplicate-free list of exactly the keys; TypeError for mixed str / number keys')
            return res
        raise sx.Unsupported("sorted of " + repr(x))
    if name == 'reversed' and len(args) == 1 and isinstance(args[0], SList):
        x = args[0]
        res = run.fresh(x.typ, 'rev')
        i = z3.Int(fresh_name('ri'))
        run.assume(res.n == x.n, sym.forall([i], z3.Implies(z3.And(i >= 0, i < x.n), res.arr[i] == x.arr[x.n - 1 - i]), [res.arr[i]]))
        return res
    if name == 'zip':
        its = [run.to_iter(a) for a in args]
        if any(it.kind != 'seq' for it in its):
            raise sx.Unsupported("zip over an unordered collection")
        n = its[0].n
        for it in its[1:]:
            n = z3.If(it.n < n, it.n, n)
        return sx.Iter('seq', n=z3.simplify(n), at=lambda i: STuple([it.at(i) for it in its]))
    if name == 'enumerate':
        it = run.to_iter(args[0])
        start = kwargs.get('start', args[1] if len(args) > 1 else SNum(0))
        if it.kind != 'seq':
            raise sx.Unsupported("enumerate over an unordered collection")
        return sx.Iter('seq', n=it.n, at=lambda i: STuple([SNum(z3.simplify(i + start.t)), it.at(i)]))
    if name == 'isinstance':
        return do_isinstance(run, args[0], args[1])
    if name == 'hasattr':
        o, a = args
        if isinstance(o, SObj):
            for s_, c_ in sx._str_consts.items():
                if c_.get_id() == a.t.get_id():
                    has = o.getfield(s_) is not None or run.resolve_method(o.cls, s_) is not None
                    return SBool(has)
        raise sx.Unsupported("hasattr on " + repr(o))
    if name == 'getattr' and len(args) in (2, 3):
        o, a = args[0], args[1]
        if isinstance(o, SObj):
            for s_, c_ in sx._str_consts.items():
                if c_.get_id() == a.t.get_id():
                    if o.getfield(s_) is not None or run.resolve_method(o.cls, s_) is not None:
                        return run.getattr(o, s_)
                    # (an attribute that is not in the sidecar's record may still exist on the real object: undecided)
        raise sx.Unsupported("getattr on " + repr(o))
    if name in ('all', 'any'):
        lst = args[0]
        if isinstance(lst, SList) and lst.typ.e is TBool:
            i = z3.Int(fresh_name('ai'))
            if name == 'all':
                return SBool(sym.forall([i], z3.Implies(z3.And(i >= 0, i < lst.n), lst.arr[i])))
            return SBool(z3.Exists([i], z3.And(i >= 0, i < lst.n, lst.arr[i])))
    if name == 'print':
        return NONE
    raise sx.Unsupported(f"line {run.cur_line}: builtin {name}")


def _empty_set(run):
    st = TSet(TKey)
    return SSet(st, st.empty())


def to_set(run, x):
    sx = _sx()
    if isinstance(x, SSet):
        return SSet(x.typ, x.get())
    if isinstance(x, SDict):
        return SSet(TSet(x.typ.k), x.dom)
    if isinstance(x, DictView) and x.what == 'keys':
        return SSet(TSet(x.d.typ.k), x.d.dom)
    if isinstance(x, sx.PyList):
        x = run.make_list(x.items)
    if isinstance(x, SList):
        st = TSet(x.typ.e)
        r = run.fresh(st, 'set')
        k = z3.Const(fresh_name('sk'), st.k.sort())
        i = z3.Int(fresh_name('si'))
        run.assume(sym.forall([k], r.dom[k] == z3.Exists([i], z3.And(i >= 0, i < x.n, x.arr[i] == k)),
                             [r.dom[k]]),
                   sym.forall([i], z3.Implies(z3.And(i >= 0, i < x.n), r.dom[x.arr[i]]), [x.arr[i]]))
        return r
    raise sx.Unsupported("set of " + repr(x))


def do_isinstance(run, v, c):
    sx = _sx()
    cname = c.path.split('.')[-1] if isinstance(c, sx.Module) else (c.name if isinstance(c, sx.ClassRef) else None)
    if cname == 'dict':
        if isinstance(v, (SDict, sx.PyEmptyDict)):
            return SBool(True)
        if isinstance(v, (SList, sx.PyList, SNum, SKey, SVal, SSet, STuple)):
            return SBool(False)
    if isinstance(v, SObj) and cname is not None:
        imap = getattr(sx.CLASSES.get(v.cls), 'isinstance_map', None)
        if imap and cname in imap:
            from .spec import ObjView
            return SBool(imap[cname](ObjView(v)))
        if cname in (CLASSES_MRO(v.cls)):
            return SBool(True)
        if cname in sx.CLASSES:
            return SBool(False)
    hook = run.opts.extra.get('isinstance')
    if hook:
        r = hook(run, v, cname)
        if r is not None:
            return r
    raise sx.Unsupported(f"isinstance({v}, {cname})")


def CLASSES_MRO(cls):
    sx = _sx()
    return sx.CLASSES[cls].mro() if cls in sx.CLASSES else [cls]


def do_sum(run, x):
    sx = _sx()
    if isinstance(x, DictView) and x.what == 'values':
        d = x.d
        if d.typ.v is TNumK:
            pr = proj_r(run, d.val)
            k = z3.Const(fresh_name('sk'), d.typ.k.sort())
            np_ = z3.Exists([k], z3.And(d.dom[k], TNumK.sort().accessor(0, 1)(d.val[k])))
            fin = sym.forall([k], z3.Implies(d.dom[k], TNumK.sort().accessor(0, 2)(d.val[k])))
            return SNum(lemmas.msum_dv(TDict(d.typ.k, TNum), d.dom, pr), np_, fin)
        return SNum(lemmas.msum(d.typ, d.get()))
    if isinstance(x, SList):
        if x.typ.e is TNumK:
            raise sx.Unsupported("sum over NumK list")
        run.assume(*lemmas.ssum_zero(x.arr))
        return SNum(lemmas.ssum(x.arr, x.n))
    if isinstance(x, sx.PyList):
        r = SNum(0)
        for it in x.items:
            r = run.arith('Add', r, it)
        return r
    raise sx.Unsupported("sum of " + repr(x))


def do_extremum(run, name, x):
    """max/min of a non-empty collection of numbers: an element that bounds all elements"""
    sx = _sx()
    if isinstance(x, DictView) and x.what == 'values':
        d = x.d
        ks = d.typ.k.sort()
        k = z3.Const(fresh_name('mk'), ks)
        w = run.fresh_const(ks, 'mw')
        run.may_raise(z3.Not(z3.Exists([k], d.dom[k])), 'ValueError', name + ' of an empty collection')
        m = run.fresh_const(z3.RealSort(), name)
        cmp = (lambda a, b: a <= b) if name == 'max' else (lambda a, b: a >= b)
        valk = _real_of(d, k)
        run.pc += [d.dom[w], _real_of(d, w) == m,
                   sym.forall([k], z3.Implies(d.dom[k], cmp(valk, m)), [d.val[k]])]
        if d.typ.v is TNumK:
            nk = TNumK.wrap(d.val[w])
            return SNum(m, nk.np, nk.fin)
        return SNum(m)
    if isinstance(x, SList) and x.typ.e in (TNum, TInt):
        i = z3.Int(fresh_name('mi'))
        w = run.fresh_const(z3.IntSort(), 'mw')
        run.may_raise(x.n <= 0, 'ValueError', name + ' of an empty sequence')
        m = run.fresh_const(z3.RealSort(), name)
        cmp = (lambda a, b: a <= b) if name == 'max' else (lambda a, b: a >= b)
        run.pc += [w >= 0, w < x.n, x.arr[w] == m,
                   sym.forall([i], z3.Implies(z3.And(i >= 0, i < x.n), cmp(x.arr[i], m)), [x.arr[i]])]
        return SNum(m)
    raise sx.Unsupported(name + " of " + repr(x))


_PROJ = {}


def proj_r_term(val):
    """the array of value parts of a NumK-valued array"""
    key = str(val.sort())
    if key not in _PROJ:
        _PROJ[key] = z3.Function('proj_r', val.sort(), z3.ArraySort(val.sort().domain(), z3.RealSort()))
    return _PROJ[key](val)


def proj_r_axiom(val):
    k = z3.Const(fresh_name('prk'), val.sort().domain())
    p = proj_r_term(val)
    return sym.forall([k], p[k] == TNumK.sort().accessor(0, 0)(val[k]), [p[k]])


def proj_r(run, val):
    run.assume(proj_r_axiom(val))
    return proj_r_term(val)


def _real_of(d, k):
    if d.typ.v is TNumK:
        return TNumK.sort().accessor(0, 0)(d.val[k])
    return d.val[k]


# ------------------------------------------------------------------------------------------------
# methods of built-in containers
# ------------------------------------------------------------------------------------------------
def call_method(run, recv, name, args, kwargs, node):
    sx = _sx()
    if isinstance(recv, sx.PyEmptyDict):
        if name in ('values', 'keys', 'items'):
            return sx.PyList([])
        if name == 'copy':
            return sx.PyEmptyDict()
    if isinstance(recv, SDict):
        dt = recv.typ
        if name in ('values', 'keys', 'items'):
            snap = SDict(dt, recv.get())
            snap.order = getattr(recv, 'order', None)
            if name == 'keys':
                return DictView(snap, 'keys')
            if name == 'values':
                return DictView(snap, 'values')
            return DictView(snap, 'items')
        if name == 'get':
            k = run.key_term(args[0], dt.k)
            default = args[1] if len(args) > 1 else kwargs.get('default', NONE)
            inside = recv.elem(k)
            if default is NONE:
                if run.qstack:
                    return sx.SMaybe(recv.dom[k], inside)
                if run.choose(recv.dom[k]):
                    return inside
                return NONE
            if isinstance(inside, SNum) and isinstance(default, SNum):
                return sx.ite_value(recv.dom[k], inside, default)
            if run.qstack:
                return sx.ite_value(recv.dom[k], inside, default)
            if run.choose(recv.dom[k]):
                return inside
            return default
        if name == 'copy':
            return SDict(dt, recv.get())
        if name == 'pop':
            k = run.key_term(args[0], dt.k)
            if len(args) > 1:
                raise sx.Unsupported("dict.pop with default")
            run.may_raise(z3.Not(recv.dom[k]), 'KeyError')
            v = snapshot(recv.elem(k))
            recv.remove(k)
            return v
        if name == 'update':
            other = args[0]
            merged = run.dict_merge([recv, other])
            recv.set(merged.get())
            return NONE
    if isinstance(recv, SSet):
        st = recv.typ
        if name == 'remove':
            k = run.key_term(args[0], st.k)
            run.may_raise(z3.Not(recv.dom[k]), 'KeyError', 'set.remove of a missing element')
            recv.set(z3.Store(recv.dom, k, z3.BoolVal(False)))
            return NONE
        if name == 'add':
            k = run.key_term(args[0], st.k)
            recv.set(z3.Store(recv.dom, k, z3.BoolVal(True)))
            return NONE
        if name == 'discard':
            k = run.key_term(args[0], st.k)
            recv.set(z3.Store(recv.dom, k, z3.BoolVal(False)))
            return NONE
        if name == 'copy':
            return SSet(st, recv.get())
        if name in ('difference', 'union', 'intersection') and len(args) == 1:
            other = to_set(run, args[0])
            if other.typ != st:
                raise sx.Unsupported("set operation on differently typed sets")
            k = z3.Const(fresh_name('sk'), st.k.sort())
            r = run.fresh(st, 'setop')
            body = {'difference': z3.And(recv.dom[k], z3.Not(other.dom[k])), 'union': z3.Or(recv.dom[k], other.dom[k]),
                    'intersection': z3.And(recv.dom[k], other.dom[k])}[name]
            run.assume(sym.forall([k], r.dom[k] == body, [r.dom[k]]))
            return r
    if isinstance(recv, SList) and name == 'reshape' and getattr(recv, 'is_1d_array', False):
        # arr.reshape(1, -1) of a 1-d array: one row
        if len(args) == 2 and all(isinstance(a, SNum) for a in args) and z3.is_true(z3.simplify(args[0].t == 1)) \
                and z3.is_true(z3.simplify(args[1].t == -1)):
            m = MatT.empty()
            return SList(MatT, MatT.mk(z3.IntVal(1), z3.Store(MatT.arr(m), 0, recv.get())))
        raise sx.Unsupported("reshape other than (1, -1)")
    if isinstance(recv, SList):
        lt = recv.typ
        if name == 'append':
            if isinstance(args[0], DictView):
                args = [unknown_order_list(run, args[0])] + list(args[1:])
            v = pack(args[0], lt.e)
            n = recv.n
            mir = getattr(recv, 'mirror', None)
            if mir is not None:
                g, gv = mir
                g.set(g.typ.mk(g.n + 1, z3.Store(g.arr, g.n, gv)))
            if lt.e is TNum:
                run.assume(*lemmas.ssum_store_last(recv.arr, n, v), *lemmas.ssum_snoc(z3.Store(recv.arr, n, v), n))
            recv.set(lt.mk(n + 1, z3.Store(recv.arr, n, v)))
            return NONE
        if name == 'popleft':
            run.may_raise(recv.n <= 0, 'IndexError', 'pop from an empty deque')
            first = snapshot(recv.elem(z3.IntVal(0)))
            old_arr, old_n = recv.arr, recv.n
            new = run.fresh(lt, 'shift')
            i = z3.Int(fresh_name('sh'))
            run.assume(new.n == old_n - 1,
                       sym.forall([i], z3.Implies(z3.And(i >= 0, i < old_n - 1), new.arr[i] == old_arr[i + 1]),
                                 [new.arr[i]]))
            recv.set(new.get())
            mir = getattr(recv, 'mirror', None)
            if mir is not None:
                g, gv = mir
                g_old_arr, g_old_n = g.arr, g.n
                gnew = run.fresh(g.typ, 'gshift')
                run.assume(gnew.n == g_old_n - 1,
                           sym.forall([i], z3.Implies(z3.And(i >= 0, i < g_old_n - 1), gnew.arr[i] == g_old_arr[i + 1]),
                                      [gnew.arr[i]]))
                g.set(gnew.get())
            return first
        if name == 'copy':
            return SList(lt, recv.get())
    if isinstance(recv, sx.PyList):
        if name == 'append':
            recv.items.append(args[0])
            return NONE
    if isinstance(recv, SOutArr):
        if name == 'flatten':
            return SOutArr(TOutArr, TOutArr.mk(z3.IntVal(1), recv.size, z3.IntVal(1), recv.data, recv.isstr))
        if name == 'reshape' and len(args) == 1 and isinstance(args[0], STuple) and not args[0].items:
            run.may_raise(recv.size != 1, 'ValueError', 'cannot reshape array into shape ()')
            return SOutArr(TOutArr, TOutArr.mk(z3.IntVal(0), z3.IntVal(1), z3.IntVal(1), recv.data, recv.isstr))
    if isinstance(recv, SObj):
        raise sx.Unsupported(f"method {recv.cls}.{name} without a contract")
    hook = run.opts.extra.get('method')
    if hook:
        r = hook(run, recv, name, args, kwargs)
        if r is not None:
            return r
    raise sx.Unsupported(f"line {run.cur_line}: method {name} of {recv}")


# ------------------------------------------------------------------------------------------------
# callbacks: the model M : Fn x Inst -> Pred, the loss L : Fn x Target x Pred -> Real
# ------------------------------------------------------------------------------------------------
InstT = TDict(TKey, TVal)
PredT = TDict(TKey, TNum)
MODEL = z3.Function('M', sym.FnS, InstT.sort(), PredT.sort())
LOSS = z3.Function('L', sym.FnS, sym.ValS, PredT.sort(), z3.RealSort())


PREDICT = z3.Function('PF', sym.FnS, MatT.sort(), TOutArr.sort())      # an sklearn-style prediction function on a 2-d array


def model_apply(fn_term, inst_term):
    return MODEL(fn_term, inst_term)


def loss_apply(fn_term, y_term, pred_term):
    return LOSS(fn_term, y_term, pred_term)


def call_callback(run, f, args, kwargs, node):
    """a callback call event. Deterministic (uninterpreted function of its arguments); may raise in
    fault mode; call-shape (positional / keyword) is checked against the documented signature."""
    sx = _sx()
    role = getattr(f, 'role', None)
    if role is None:
        raise sx.Unsupported("call of a callable without a declared role")
    if role == 'loss':
        if kwargs:
            run.oblige(f"{run.fspec.key}/callshape/loss_positional@{run.cur_line}", False, kind='callshape',
                       clause='loss_positional', function=run.fspec.key,
                       detail=f"loss called with keyword(s) {sorted(kwargs)}; documented signature is positional "
                              f"loss(y_true, y_pred)")
            order = ['y_true', 'y_prediction', 'y_pred']
            extra = [kwargs[k] for k in order if k in kwargs]
            args = list(args) + extra
        if len(args) != 2:
            run.oblige(f"{run.fspec.key}/callshape/loss_arity@{run.cur_line}", False, kind='callshape',
                       clause='loss_arity', function=run.fspec.key)
            raise sx.PathEnd()
        y, pred = args
        if not isinstance(pred, SDict):
            raise sx.Unsupported("loss called with a non-dict prediction")
        if run.opts.fault_mode:
            run.fault_point('loss')
        r = loss_apply(f.t, pack(y, TVal), pred.get())
        run.events.append({'kind': 'loss', 'y': pack(y, TVal), 'pred': pred.get(), 'value': r, 'line': run.cur_line,
                           'count': _qcount(run)})
        run.bump('loss', _qcount(run))
        return SNum(r)
    if role == 'model':
        if kwargs or len(args) != 1:
            run.oblige(f"{run.fspec.key}/callshape/model_positional@{run.cur_line}", False, kind='callshape',
                       clause='model_positional', function=run.fspec.key)
            raise sx.PathEnd()
        x = args[0]
        if run.opts.fault_mode:
            run.fault_point('model')
        if isinstance(x, SDict) and x.typ == InstT:
            r = model_apply(f.t, x.get())
            run.events.append({'kind': 'model', 'x': x.get(), 'value': r, 'line': run.cur_line,
                               'count': _qcount(run)})
            run.bump('model', _qcount(run))
            return SDict(PredT, r)
        if isinstance(x, SList) and x.typ.e == InstT:
            lt = TList(PredT)
            res = run.fresh(lt, 'preds')
            i = z3.Int(fresh_name('bi'))
            run.assume(res.n == x.n,
                       sym.forall([i], z3.Implies(z3.And(i >= 0, i < x.n), res.arr[i] == model_apply(f.t, x.arr[i])),
                                 [res.arr[i]]))
            run.events.append({'kind': 'model_batch', 'xs': x.get(), 'value': res.get(), 'line': run.cur_line,
                               'count': x.n})
            run.bump('model', x.n)
            run.trusted.add('assumption: the model applied to a list returns the list of its single-instance outputs')
            return res
        raise sx.Unsupported("model called with " + repr(x))
    if role == 'predict':
        if kwargs or len(args) != 1 or not (isinstance(args[0], SList) and args[0].typ == MatT):
            raise sx.Unsupported("prediction function called with other than one 2-d array")
        r = PREDICT(f.t, args[0].get())
        run.events.append({'kind': 'predict', 'x': args[0].get(), 'value': r, 'line': run.cur_line})
        run.bump('model')
        run.assume(*TOutArr.wf(r))
        return SOutArr(TOutArr, r)
    hook = run.opts.extra.get('callback')
    if hook:
        return hook(run, f, role, args, kwargs)
    raise sx.Unsupported("callback role " + str(role))


def _qcount(run):
    """number of times an event inside a comprehension happens (1 outside)"""
    if not run.qstack:
        return z3.IntVal(1)
    c = z3.IntVal(1)
    for fr in run.qstack:
        if fr.it.kind == 'seq':
            c = c * fr.it.n
        else:
            return None
    return c


# ------------------------------------------------------------------------------------------------
# float mode (C20): uninterpreted IEEE operations, no real-arithmetic rewriting
# ------------------------------------------------------------------------------------------------
FADD = z3.Function('fadd', z3.RealSort(), z3.RealSort(), z3.RealSort())
FSUB = z3.Function('fsub', z3.RealSort(), z3.RealSort(), z3.RealSort())
FMUL = z3.Function('fmul', z3.RealSort(), z3.RealSort(), z3.RealSort())
FDIV = z3.Function('fdiv', z3.RealSort(), z3.RealSort(), z3.RealSort())


def float_arith(run, op, a, b):
    sx = _sx()
    f = {'Add': FADD, 'Sub': FSUB, 'Mult': FMUL, 'Div': FDIV}.get(op)
    if f is None:
        raise sx.Unsupported("float mode operator " + op)
    return SNum(f(a.real(), b.real()))
