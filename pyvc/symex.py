"""Symbolic executor / VC generator: one function at a time, callee contracts instead of callee
bodies, loops cut by invariants, exceptions as explicit control flow.

Path exploration is by re-execution with a decision log (each fork point asks `choose`); this
keeps the interpreter a plain tree walker.  Every obligation is (hypotheses, goal) over z3 terms.
"""
import ast
import z3

from . import sym, spec, frontend
from .sym import (SV, SNum, SBool, SKey, SVal, SFn, SDict, SSet, SList, STuple, SObj, NONE, TInt, TNum, TNumK, SNDArray,
                  TBool, TKey, TVal, TFn, TNone, TDict, TSet, TList, TTuple, TObj, pack, snapshot, fresh_name)
from .spec import FUNCS, CLASSES, Ctx, NS, ObjView, view, TOpt


class PyRaise(Exception):
    def __init__(self, exc, info=''):
        self.exc, self.info = exc, info


class ReturnSig(Exception):
    def __init__(self, value):
        self.value = value


class PathEnd(Exception):
    pass


class BreakSig(Exception):
    pass


class ContinueSig(Exception):
    pass


class Unsupported(Exception):
    """construct outside the supported subset (verdict: undecided, never a violation)"""


EXC_PARENTS = {
    'KeyError': 'LookupError', 'IndexError': 'LookupError', 'LookupError': 'Exception',
    'ZeroDivisionError': 'ArithmeticError', 'ArithmeticError': 'Exception', 'ValueError': 'Exception',
    'TypeError': 'Exception', 'AttributeError': 'Exception', 'AssertionError': 'Exception',
    'NotImplementedError': 'RuntimeError', 'RuntimeError': 'Exception', 'ImportError': 'Exception',
    'CallbackError': 'Exception', 'Exception': 'BaseException',
}


def exc_matches(exc, handler):
    while exc is not None:
        if exc == handler:
            return True
        exc = EXC_PARENTS.get(exc)
    return False


class Obligation:
    def __init__(self, oid, hyps, goal, meta):
        self.id = oid
        self.hyps = list(hyps)
        self.goal = goal
        self.meta = meta
        self.expect_sat = meta.get('canary', False)

    def instances(self):
        """sound helper hypotheses: instances of the universally quantified hypotheses at the ground terms of the goal
        (two rounds) and of definitional axioms at their ground applications (mini E-matching)"""
        src = getattr(self, 'inst_src', None)
        if src is None:
            return []
        if getattr(self, '_inst', None) is None:
            inst = instantiate_at_goal(self.hyps, src)
            inst2 = instantiate_at_goal(self.hyps, src + inst, cap=300) if inst else []
            qf = [h for h in self.hyps if not (z3.is_quantifier(h) and h.is_forall())]
            inst3 = instantiate_by_pattern(self.hyps, src + inst + inst2 + qf)
            self._inst = inst + inst2 + inst3
        return self._inst

    def relevant_hyps(self, depth=2):
        """cone of influence of the goal (dropping hypotheses is sound for a proof attempt)"""
        return relevance_filter(self.hyps, self.goal, depth)

    def __repr__(self):
        return f"<obl {self.id}>"


_hq_cache = {}


def _has_quantifier(t):
    i = t.get_id()
    if i in _hq_cache:
        return _hq_cache[i]
    stack = [t]
    seen = set()
    r = False
    while stack:
        x = stack.pop()
        if x.get_id() in seen:
            continue
        seen.add(x.get_id())
        if z3.is_quantifier(x):
            r = True
            break
        if z3.is_app(x):
            stack.extend(x.children())
    _hq_cache[i] = r
    return r


_sym_cache = {}


def symbols_of(t):
    """names of the uninterpreted constants / functions of a term (datatype accessors and theory symbols excluded)"""
    i = t.get_id()
    if i in _sym_cache:
        return _sym_cache[i]
    out = set()
    stack = [t]
    seen = set()
    while stack:
        x = stack.pop()
        if x.get_id() in seen:
            continue
        seen.add(x.get_id())
        if z3.is_quantifier(x):
            stack.append(x.body())
        elif z3.is_app(x):
            d = x.decl()
            if d.kind() == z3.Z3_OP_UNINTERPRETED:
                out.add(d.name())
            stack.extend(x.children())
    _sym_cache[i] = out
    return out


COMMON_SYMBOLS = {'M', 'L', 'dflt_Val', 'none_val'}


def relevance_filter(hyps, goal, depth=2):
    S = set(symbols_of(goal)) - COMMON_SYMBOLS
    keep = [False] * len(hyps)
    hs = [symbols_of(h) - COMMON_SYMBOLS for h in hyps]
    for _ in range(depth):
        new = set()
        for idx, sy in enumerate(hs):
            if not keep[idx] and (sy & S or not sy):
                keep[idx] = True
                new |= sy
        if not new - S:
            break
        S |= new
    return [h for h, k in zip(hyps, keep) if k]


def skolemize_hyp(h):
    """an existential hypothesis is replaced by its body at fresh constants (sound for hypotheses); conjunctions are split"""
    out = []

    def rec(x):
        if z3.is_quantifier(x) and x.is_exists():
            vs = [z3.Const(fresh_name('ex_' + x.var_name(i)), x.var_sort(i)) for i in range(x.num_vars())]
            rec(z3.substitute_vars(x.body(), *reversed(vs)))
        elif z3.is_and(x):
            for c in x.children():
                rec(c)
        else:
            out.append(x)
    rec(h)
    return out


def split_goal(goal, limit=48):
    """skolemise universal goals and split conjunctions: one small query per conjunct"""
    out = []

    def rec(g, extra):
        if len(out) >= limit:
            out.append((extra, g))
            return
        if z3.is_quantifier(g) and g.is_forall():
            vs = [z3.Const(fresh_name('sk_' + g.var_name(i)), g.var_sort(i)) for i in range(g.num_vars())]
            body = z3.substitute_vars(g.body(), *reversed(vs))
            rec(body, extra)
        elif z3.is_and(g):
            for c in g.children():
                rec(c, extra)
        elif z3.is_implies(g):
            rec(g.arg(1), extra + skolemize_hyp(g.arg(0)))
        elif z3.is_app(g) and g.decl().kind() == z3.Z3_OP_ITE and g.sort() == z3.BoolSort():
            rec(g.arg(1), extra + [g.arg(0)])
            rec(g.arg(2), extra + [z3.Not(g.arg(0))])
        else:
            out.append((extra, g))
    rec(goal, [])
    return out


def ground_terms(formulas, limit=10, sorts=None):
    """ground subterms of sort Key / Int (and of the extra sorts asked for) occurring in the formulas (outside
    quantifiers), smallest first"""
    extra_sorts = sorts or set()
    found = {}
    seen = set()
    stack = list(formulas)
    while stack:
        t = stack.pop()
        if t.get_id() in seen or z3.is_quantifier(t):
            continue
        seen.add(t.get_id())
        if z3.is_app(t):
            srt = t.sort()
            if (srt == sym.KeyS or srt == z3.IntSort() or str(srt) in extra_sorts) and not z3.is_int_value(t):
                found[t.get_id()] = t
            stack.extend(t.children())
    by_sort = {}
    for t in sorted(found.values(), key=lambda x: len(str(x))):
        lst = by_sort.setdefault(str(t.sort()), [])
        if len(lst) < limit:
            lst.append(t)
    return by_sort


def _apps_of(formulas, names):
    """ground applications (outside quantifiers) of the uninterpreted functions with the given names"""
    out = {}
    seen = set()
    stack = list(formulas)
    while stack:
        t = stack.pop()
        if t.get_id() in seen or z3.is_quantifier(t):
            continue
        seen.add(t.get_id())
        if z3.is_app(t):
            if t.num_args() > 0 and t.decl().kind() == z3.Z3_OP_UNINTERPRETED and t.decl().name() in names:
                out.setdefault(t.decl().name(), {})[t.get_id()] = t
            stack.extend(t.children())
    return out


def _simple_pattern(h):
    """(function name, arg positions -> bound var index) if the quantifier has a single pattern f(x_i, x_j, ...)
    whose arguments are exactly its bound variables, each once"""
    if h.num_patterns() != 1:
        return None
    p = h.pattern(0)
    if p.num_args() != 1:
        return None
    t = p.arg(0)
    if not z3.is_app(t) or t.decl().kind() != z3.Z3_OP_UNINTERPRETED or t.num_args() != h.num_vars():
        return None
    idxs = []
    for a in t.children():
        if not z3.is_var(a):
            return None
        idxs.append(z3.get_var_index(a))
    if sorted(idxs) != list(range(h.num_vars())):
        return None
    return t.decl().name(), idxs


def instantiate_by_pattern(hyps, sources, cap=120):
    """mini E-matching for definitional axioms `forall xs. f(xs) => ...` / `f(xs) == ...`: one instance per ground f-term"""
    pats = []
    for h in hyps:
        if z3.is_quantifier(h) and h.is_forall():
            sp = _simple_pattern(h)
            if sp is not None:
                pats.append((h, sp))
    if not pats:
        return []
    apps = _apps_of(sources, {sp[0] for _, sp in pats})
    out = []
    for h, (fname, idxs) in pats:
        for t in list(apps.get(fname, {}).values())[:40]:
            if len(out) >= cap:
                return out
            # de Bruijn: var index i refers to bound variable number (num_vars - 1 - i)
            nv = h.num_vars()
            subst = [None] * nv
            for argpos, vi in enumerate(idxs):
                subst[vi] = t.arg(argpos)
            try:
                out.append(z3.substitute_vars(h.body(), *subst))
            except z3.Z3Exception:
                pass
    return out


def instantiate_at_goal(hyps, goal_parts, cap=400):
    """sound helper: instances of the universally quantified hypotheses at the ground Key/Int terms of the goal
    (skolem constants first).  Consequences of the hypotheses only - used to spare the solver the E-matching."""
    wanted = set()
    for h in hyps:
        if z3.is_quantifier(h) and h.is_forall() and h.num_vars() <= 2:
            for i in range(h.num_vars()):
                vs = h.var_sort(i)
                if vs.kind() in (z3.Z3_DATATYPE_SORT, z3.Z3_UNINTERPRETED_SORT) and vs != sym.KeyS:
                    wanted.add(str(vs))
    terms = ground_terms(goal_parts, sorts=wanted)
    for k in list(terms):
        if k in wanted:
            terms[k] = terms[k][:4]
    if not terms:
        return []
    out = []
    for h in hyps:
        if len(out) >= cap:
            break
        if not (z3.is_quantifier(h) and h.is_forall()):
            continue
        nv = h.num_vars()
        if nv > 2:
            continue
        cands = [terms.get(str(h.var_sort(i)), []) for i in range(nv)]
        if any(not c for c in cands):
            continue
        import itertools as _it
        for combo in _it.islice(_it.product(*cands), 36):
            try:
                b = z3.substitute_vars(h.body(), *reversed(combo))
            except z3.Z3Exception:
                continue
            out.append(b)
            out.extend(_nested_instances(b, terms, 24))
    return out


def _nested_instances(f, terms, cap, depth=0):
    """instances of universally quantified sub-formulas in positive position (under the consequent of implications and
    under conjunctions), each kept under its guards: sound consequences of f"""
    import itertools as _it
    if cap <= 0 or depth > 3:
        return []
    if z3.is_implies(f):
        return [z3.Implies(f.arg(0), r) for r in _nested_instances(f.arg(1), terms, cap, depth)]
    if z3.is_and(f):
        out = []
        for c in f.children():
            out += _nested_instances(c, terms, cap - len(out), depth)
        return out
    if z3.is_quantifier(f) and f.is_forall() and f.num_vars() <= 2:
        cands = [terms.get(str(f.var_sort(i)), []) for i in range(f.num_vars())]
        if any(not c for c in cands):
            return []
        out = []
        for combo in _it.islice(_it.product(*cands), 12):
            if len(out) >= cap:
                break
            try:
                b = z3.substitute_vars(f.body(), *reversed(combo))
            except z3.Z3Exception:
                continue
            out.append(b)
            out += _nested_instances(b, terms, cap - len(out), depth + 1)
        return out
    return []


COUNTER_NAMES = ['model', 'loss', 'random.random', 'random.randrange', 'random.randint', 'uniform_int', 'np.random.permutation',
                 'np.random.normal', 'random.choices', 'impute', 'storage_update']


class Explorer:
    def __init__(self):
        self.decisions = []
        self.pos = 0
        self.paths = 0

    def start(self):
        self.pos = 0
        self.paths += 1

    def backtrack(self):
        while self.decisions and not self.decisions[-1][1]:
            self.decisions.pop()
        if not self.decisions:
            return False
        d = self.decisions[-1]
        self.decisions[-1] = [not d[0], False]
        return True


class QFrame:
    """quantified context (inside a comprehension): bound vars, guard, collected raise conditions"""

    def __init__(self, vars_, guard):
        self.vars = list(vars_)
        self.guard = guard
        self.raises = []


class Module:
    """marker value for an imported module / dotted global"""

    def __init__(self, path):
        self.path = path

    def __repr__(self):
        return f"Module({self.path})"


class Bound:
    """bound method marker"""

    def __init__(self, recv, name):
        self.recv, self.name = recv, name


class ClassRef:
    def __init__(self, name):
        self.name = name


class FuncRef:
    def __init__(self, key):
        self.key = key


class StaticHelper:
    """a @staticmethod of a class of the module under verification that has no contract (executed in place when called)"""

    def __init__(self, mod, cls, fdef):
        self.mod, self.cls, self.fdef = mod, cls, fdef


class SuperRef:
    pass


class Iter:
    """normalised iterable. kind 'seq': n (Int term), at(i)->SV ; kind 'set': dom (array), at(k)->SV, ksort"""

    def __init__(self, kind, n=None, at=None, dom=None, ksort=None, concrete=None):
        self.kind, self.n, self.at, self.dom, self.ksort, self.concrete = kind, n, at, dom, ksort, concrete


class Options:
    def __init__(self, fault_mode=False, callee_clauses=None, float_mode=False, feas_timeout=1000,
                 extra=None):
        self.fault_mode = fault_mode          # callbacks / interface calls may raise (C17)
        self.callee_clauses = callee_clauses  # None: assume all callee clauses; dict key -> set of clause names
        self.float_mode = float_mode          # uninterpreted float operations (C20)
        self.feas_timeout = feas_timeout
        self.extra = extra or {}


_NO_HELPER = object()


class PC(list):
    """the path condition.  A fact added while a comprehension element is being evaluated speaks about that element: it is
    closed over the bound variables of the enclosing quantifier frames (whoever adds it, with assume / append / +=)"""

    def __init__(self, run, items=()):
        super().__init__(items)
        self.run = run

    def _c(self, f):
        return self.run._close(f) if self.run.qstack else f

    def append(self, f):
        super().append(self._c(f))

    def extend(self, fs):
        super().extend([self._c(f) for f in fs])

    def __iadd__(self, fs):
        self.extend(fs)
        return self


class Run:
    def __init__(self, fspec, fdef, mod, explorer, opts):
        self.fspec, self.fdef, self.mod, self.explorer, self.opts = fspec, fdef, mod, explorer, opts
        self.pc = PC(self)
        self.skolems = set()
        self.inline_depth = 0
        self.env = {}
        self.events = []
        self.obligations = []
        self.qstack = []
        self.loop_ord = {id(n): i for i, n in enumerate(frontend.loops_of(fdef))} if fdef is not None else {}
        self.self_obj = None
        self.old = None
        self.args0 = None
        self.lg = None
        self.modstack = [mod]
        self.clsstack = [fspec.src_cls if fspec else None]
        self.notes = []
        self.trusted = set()
        self.called = set()
        self.fault_count = 0
        self.cur_line = 0
        self._feas = None
        self.counters = {}
        self.last_loop = None
        self.loop_stack = []
        self.cur_loop = None

    # ---- event counters (ghost) ------------------------------------------------------------------
    def counter(self, name):
        return self.counters.get(name, z3.IntVal(0))

    def bump(self, name, by=1):
        if by is None:
            self.counters[name] = z3.Int(fresh_name('cnt_' + name))   # unknown number of events
            return
        self.counters[name] = z3.simplify(self.counter(name) + by)

    # ---- path condition / choice ---------------------------------------------------------------
    def assume(self, *facts):
        for f in facts:
            if isinstance(f, (list, tuple)):
                self.assume(*f)
                continue
            if isinstance(f, bool):
                f = z3.BoolVal(f)
            if z3.is_and(f) and not self.qstack:
                self.assume(*f.children())      # one hypothesis per conjunct (instantiation works on top-level foralls)
                continue
            if z3.is_true(f):
                continue
            self.pc.append(f)

    def _close(self, fact):
        vars_ = [v for fr in self.qstack for v in fr.vars]
        guard = z3.And(*[fr.guard for fr in self.qstack])
        # trigger: an application of an element-wise skolem function (fresh_const) to exactly the bound variables
        pats, seen, todo = [], set(), [fact]
        while todo and not pats:
            t = todo.pop()
            if t.get_id() in seen or z3.is_quantifier(t) or z3.is_var(t):
                continue
            seen.add(t.get_id())
            if z3.is_app(t) and t.decl().kind() == z3.Z3_OP_UNINTERPRETED and t.num_args() == len(vars_) \
                    and t.decl().name() in self.skolems and all(a.eq(v) for a, v in zip(t.children(), vars_)):
                pats.append(t)
            todo.extend(t.children())
        if pats:
            return z3.ForAll(vars_, z3.Implies(guard, fact), patterns=pats[:1])
        return z3.ForAll(vars_, z3.Implies(guard, fact))

    def feasible(self, cond):
        """is the branch possibly reachable?  Decided on the quantifier-free part of the path condition only
        (an over-approximation: a branch wrongly kept only adds obligations with contradictory hypotheses)"""
        s = z3.Solver()
        s.set('timeout', self.opts.feas_timeout)
        for h in self.pc:
            if not _has_quantifier(h):
                s.add(h)
        s.add(cond)
        return s.check() != z3.unsat

    def choose(self, cond):
        if isinstance(cond, bool):
            return cond
        cond = z3.simplify(cond)
        if z3.is_true(cond):
            return True
        if z3.is_false(cond):
            return False
        if self.qstack:
            raise Unsupported(f"line {self.cur_line}: control-flow fork inside a comprehension")
        ex = self.explorer
        if ex.pos < len(ex.decisions):
            d = ex.decisions[ex.pos][0]
        else:
            ct = self.feasible(cond)
            cf = self.feasible(z3.Not(cond))
            if not ct and not cf:
                raise PathEnd()
            d = ct
            ex.decisions.append([d, ct and cf])
        ex.pos += 1
        if d:
            self.pc += skolemize_hyp(cond)      # an existential branch condition is kept at fresh constants
        else:
            self.pc.append(z3.Not(cond))
        return d

    def choose_free(self, label):
        return self.choose(z3.Bool(fresh_name(label)))

    def may_raise(self, cond, exc, info=''):
        """raise exc on the paths where cond holds"""
        if isinstance(cond, bool):
            cond = z3.BoolVal(cond)
        cond = z3.simplify(cond)
        if z3.is_false(cond):
            return
        if self.qstack:
            self.qstack[-1].raises.append((cond, exc))
            return
        if self.choose(cond):
            raise PyRaise(exc, info)

    def fresh(self, typ, base):
        """fresh value; inside a quantified context a skolem function of the bound variables"""
        if not self.qstack or isinstance(typ, (type(TNone),)):
            v = typ.fresh(base)
            if isinstance(typ, TObj):
                for w in self._wf_obj(v):
                    self.pc.append(w)
            else:
                self.pc.extend(typ.wf(pack(v)) if typ is not TNone else [])
            return v
        vars_ = [v for fr in self.qstack for v in fr.vars]
        f = z3.Function(fresh_name(base), *[v.sort() for v in vars_], typ.sort())
        term = f(*vars_)
        self.assume(*typ.wf(term))
        return typ.wrap(term)

    def fresh_const(self, sort, base):
        """fresh z3 term of the given sort; inside a quantified context (comprehension element) a skolem function of the
        bound variables - a plain constant there would be ONE value for all elements"""
        if not self.qstack:
            return z3.Const(fresh_name(base), sort)
        vars_ = [v for fr in self.qstack for v in fr.vars]
        nm = fresh_name(base)
        self.skolems.add(nm)
        return z3.Function(nm, *[v.sort() for v in vars_], sort)(*vars_)

    def _wf_obj(self, o):
        out = []
        for f, t in o.spec().all_fields().items():
            fv = o.getfield(f)
            if isinstance(fv, SObj) and fv.fields is not None:
                out += self._wf_obj(fv)
            elif fv is not None and t is not TNone:
                out += t.wf(pack(fv))
        return out

    def clause(self, name, f, ctx):
        """evaluate a contract clause; a clause that cannot be evaluated on this path (the event structure differs
        from what the contract expects, a bound name is gone) makes the verdict undecided, never a violation"""
        try:
            return f(ctx)
        except (Unsupported, PyRaise, PathEnd):
            raise
        except Exception as ex:   # noqa
            raise Unsupported(f"clause {name} cannot be evaluated at line {self.cur_line}: {type(ex).__name__}: {ex}")

    def oblige(self, oid, goal, **meta):
        if isinstance(goal, (list, tuple)):
            goal = z3.And(*goal) if goal else z3.BoolVal(True)
        if isinstance(goal, bool):
            goal = z3.BoolVal(goal)
        meta.setdefault('line', self.cur_line)
        meta['path'] = self.explorer.paths
        if meta.get('canary'):
            self.obligations.append(Obligation(oid, self.pc, goal, meta))
            return
        pieces = split_goal(goal)
        for i, (extra, g) in enumerate(pieces):
            m = dict(meta)
            m['piece'] = i
            m['whole_goal'] = goal
            src = [g] + extra
            if z3.is_false(g):
                src = src + [h for h in self.pc[-4:] if not _has_quantifier(h)]   # the branch conditions that led here
            ob = Obligation(oid, self.pc + extra, g, m)
            ob.inst_src = src           # instances of the quantified hypotheses are computed lazily (in the solver worker)
            self.obligations.append(ob)

    # ---- statements --------------------------------------------------------------------------------
    def exec_block(self, stmts):
        for s in stmts:
            self.exec_stmt(s)

    def exec_stmt(self, s):
        self.cur_line = getattr(s, 'lineno', self.cur_line)
        m = getattr(self, 'st_' + type(s).__name__, None)
        if m is None:
            raise Unsupported(f"line {self.cur_line}: statement {type(s).__name__}")
        m(s)

    def st_Pass(self, s):
        pass

    def st_Break(self, s):
        raise BreakSig()

    def st_Continue(self, s):
        raise ContinueSig()

    def st_Expr(self, s):
        if isinstance(s.value, ast.Constant):
            return
        self.ev(s.value)

    def st_Return(self, s):
        raise ReturnSig(self.ev(s.value) if s.value is not None else NONE)

    def st_Assign(self, s):
        v = self.ev(s.value)
        for t in s.targets:
            self.assign(t, v)

    def st_AnnAssign(self, s):
        if s.value is not None:
            self.assign(s.target, self.ev(s.value))

    def st_AugAssign(self, s):
        load = ast.copy_location(_as_load(s.target), s.target)
        cur = self.ev(load)
        rhs = self.ev(s.value)
        self.assign(s.target, self.binop(type(s.op).__name__, cur, rhs, inplace=True))

    def st_If(self, s):
        if self.choose(self.truth(self.ev(s.test))):
            self.exec_block(s.body)
        else:
            self.exec_block(s.orelse)

    def st_Assert(self, s):
        if not self.choose(self.truth(self.ev(s.test))):
            raise PyRaise('AssertionError')

    def st_Raise(self, s):
        if s.exc is None:
            raise Unsupported("bare raise")
        e = s.exc
        name = None
        if isinstance(e, ast.Call) and isinstance(e.func, ast.Name):
            name = e.func.id
        elif isinstance(e, ast.Name):
            name = e.id
        if name is None:
            raise Unsupported("raise of a computed exception")
        raise PyRaise(name)

    def st_Import(self, s):
        pass

    def st_ImportFrom(self, s):
        pass

    def st_With(self, s):
        for it in s.items:
            txt = ast.unparse(it.context_expr)
            if not txt.startswith('warnings.catch_warnings'):
                raise Unsupported(f"with {txt}")
        self.exec_block(s.body)

    def st_Delete(self, s):
        for t in s.targets:
            if isinstance(t, ast.Subscript):
                d = self.ev(t.value)
                k = self.ev(t.slice)
                if isinstance(d, SDict):
                    self.may_raise(z3.Not(d.dom[pack(k, d.typ.k)]), 'KeyError')
                    d.remove(pack(k, d.typ.k))
                    continue
            raise Unsupported("del of " + ast.unparse(t))

    def st_Try(self, s):
        if s.orelse:
            raise Unsupported("try/else")
        if s.finalbody:
            # try / [except] / finally: the final block runs on every way out (normal, return, exception)
            inner = ast.Try(body=s.body, handlers=s.handlers, orelse=[], finalbody=[]) if s.handlers else None
            try:
                if inner is not None:
                    ast.copy_location(inner, s)
                    self.st_Try(inner)
                else:
                    self.exec_block(s.body)
            except (PyRaise, ReturnSig, BreakSig, ContinueSig):
                self.exec_block(s.finalbody)
                raise
            self.exec_block(s.finalbody)
            return
        try:
            self.exec_block(s.body)
        except PyRaise as e:
            for h in s.handlers:
                names = []
                if h.type is None:
                    names = ['BaseException']
                elif isinstance(h.type, ast.Tuple):
                    names = [ast.unparse(x) for x in h.type.elts]
                else:
                    names = [ast.unparse(h.type)]
                caught = any(exc_matches(e.exc, n) for n in names)
                if not caught and e.exc == 'CallbackError' and self.opts.fault_mode:
                    # the injected fault stands for ANY exception a failing callback may raise: a handler for a particular
                    # exception class may or may not catch it - both are explored; a fault that is caught and not re-raised
                    # is recorded (the exit obligations then ask whether the failure was swallowed)
                    if self.choose_free('fault_caught_by_handler'):
                        caught = True
                        self.swallowed_faults = getattr(self, 'swallowed_faults', 0) + 1
                if caught:
                    if h.name:
                        self.env[h.name] = SKey(z3.Const(fresh_name('exc'), sym.KeyS))
                    self.exec_block(h.body)
                    return
            raise

    def st_For(self, s):
        if s.orelse:
            raise Unsupported("for/else")
        it = self.to_iter(self.ev(s.iter))
        ordinal = self.loop_ord.get(id(s))
        lspec = None
        if self.fspec is not None and ordinal is not None and ordinal < len(self.fspec.loops):
            lspec = self.fspec.loops[ordinal]
        if it.concrete is not None and (lspec is None or lspec.unroll):
            for v in it.concrete:
                self.assign(s.target, v)
                try:
                    self.exec_block(s.body)
                except ContinueSig:
                    continue
                except BreakSig:
                    break
            return
        if lspec is None:
            raise Unsupported(f"line {s.lineno}: loop #{ordinal} without an invariant in the sidecar")
        self.loop_rule(s, it, lspec, ordinal)

    # ---- the loop rule -----------------------------------------------------------------------------
    def loop_rule(self, s, it, lspec, ordinal):
        fkey = self.fspec.key
        entry_env = {k: (snapshot(v) if isinstance(v, SV) else v) for k, v in self.env.items()}
        entry_self = snapshot(self.self_obj) if self.self_obj is not None else None
        ghosts = {}
        lc = LoopCtx(self, it, entry_env, entry_self, ghosts)
        lc.entry_counters = dict(self.counters)
        self.loop_stack = getattr(self, 'loop_stack', []) + [lc]
        self.cur_loop = lc
        # ghost initial values, iteration ghost at "nothing visited"
        if it.kind == 'seq':
            lc.i = z3.IntVal(0)
        else:
            lc.done = z3.K(it.ksort, z3.BoolVal(False))
        for g, (gt, ginit, gstep) in lspec.ghosts.items():
            ghosts[g] = gt.wrap(_term(ginit(lc)))
        for cname, f in lspec.inv.items():
            self.oblige(f"{fkey}/loop{ordinal}/established/{cname}", self.clause(cname, f, lc), kind='loop_established',
                        clause=cname, function=fkey)
        # havoc
        roots = lspec.modifies if lspec.modifies is not None else modified_roots(s, self)
        for r in roots:
            self.havoc_root(r)
        for cn in (lspec.counters if lspec.counters is not None else COUNTER_NAMES):
            self.counters[cn] = z3.Int(fresh_name('cnt_' + cn.replace('.', '_')))
        if it.kind == 'seq':
            i = z3.Int(fresh_name('it'))
            self.pc += [i >= 0, i <= it.n]
            lc.i = i
        else:
            done = z3.Const(fresh_name('done'), z3.ArraySort(it.ksort, z3.BoolSort()))
            k = z3.Const(fresh_name('wk'), it.ksort)
            self.pc.append(sym.forall([k], z3.Implies(done[k], it.dom[k]), [done[k]]))
            lc.done = done
        for g, (gt, ginit, gstep) in lspec.ghosts.items():
            ghosts[g] = self.fresh(gt, 'gh_' + g)
        for cname, f in lspec.inv.items():
            self.assume(_conj(f(lc)))
        if self.choose_free(f"loop{ordinal}_iter"):
            # an arbitrary iteration
            if it.kind == 'seq':
                self.pc.append(lc.i < it.n)
                elem = it.at(lc.i)
                lc.elem = elem
            else:
                k = z3.Const(fresh_name('el'), it.ksort)
                self.pc += [it.dom[k], z3.Not(lc.done[k])]
                elem = it.at(k)
                lc.elem_key = k
                lc.elem = elem
            self.assign(s.target, elem)
            lc.iter_counters = dict(self.counters)
            lc.iter_events = len(self.events)
            if lspec.lemmas:
                lc.phase = 'body'
            try:
                self.exec_block(s.body)
            except ContinueSig:
                pass
            except BreakSig:
                # `break` in an arbitrary iteration: the loop is left at once - execution continues after the loop from the
                # state at the break (invariant at the start of this iteration + the body's path up to here); the loop's exit
                # condition "everything visited" is NOT assumed on this path, ghosts are not stepped
                if getattr(s, 'orelse', None):
                    raise Unsupported("break in a loop with an else clause")
                lc.exited = True
                lc.broke = True
                self.last_loop = lc
                self.loop_stack = self.loop_stack[:-1]
                self.cur_loop = self.loop_stack[-1] if self.loop_stack else None
                return
            for cname, f in lspec.body.items():
                self.oblige(f"{fkey}/loop{ordinal}/body/{cname}", self.clause(cname, f, lc), kind='loop_body', clause=cname,
                            function=fkey)
            # step the ghosts
            new_ghosts = {}
            for g, (gt, ginit, gstep) in lspec.ghosts.items():
                new_ghosts[g] = gt.wrap(_term(gstep(lc)))
            ghosts.update(new_ghosts)
            if it.kind == 'seq':
                lc.i = lc.i + 1
            else:
                lc.done = z3.Store(lc.done, lc.elem_key, z3.BoolVal(True))
            if lspec.lemmas:
                self.assume(*lspec.lemmas(lc))
            for cname, f in lspec.inv.items():
                self.oblige(f"{fkey}/loop{ordinal}/preserved/{cname}", self.clause(cname, f, lc), kind='loop_preserved',
                            clause=cname, function=fkey)
            raise PathEnd()
        # exit
        if it.kind == 'seq':
            self.pc.append(lc.i == it.n)
        else:
            k = z3.Const(fresh_name('xk'), it.ksort)
            self.pc.append(lc.done == it.dom)
        lc.exited = True
        self.last_loop = lc
        self.loop_stack = self.loop_stack[:-1]
        self.cur_loop = self.loop_stack[-1] if self.loop_stack else None

    def havoc_root(self, r):
        if r.startswith('self.'):
            f = r[5:]
            cur = self.self_obj.getfield(f)
            if cur is None:
                return
            if isinstance(cur, sym.SCompound):
                cur.set(pack(self.havoc_like(cur, r)))
            else:
                self.self_obj.setfield(f, self.havoc_like(cur, r))
        elif r == 'self':
            return
        else:
            if r in self.env and isinstance(self.env[r], SV):
                if isinstance(self.env[r], sym.SCompound):
                    self.env[r].set(pack(self.havoc_like(self.env[r], r)))
                else:
                    self.env[r] = self.havoc_like(self.env[r], r)

    def havoc_like(self, v, base):
        if isinstance(v, SNum):
            if v.np is not None:
                return self.fresh(TNumK, base)
            return self.fresh(TInt if v.is_int else TNum, base)
        if isinstance(v, SObj) and v.fields is not None:
            return SObj(v.cls, fields={k: self.havoc_like(f, base + '.' + k) for k, f in v.fields.items()})
        if isinstance(v, STuple):
            return STuple([self.havoc_like(i, base) for i in v.items])
        if v is NONE:
            return NONE
        if getattr(v, 'typ', None) is None:
            raise Unsupported(f"a loop modifies {base}, a value of a kind that has no symbolic type ({type(v).__name__})")
        return self.fresh(v.typ, base)

    # ---- assignment --------------------------------------------------------------------------------
    def assign(self, target, v):
        if isinstance(target, ast.Name):
            self.env[target.id] = v
        elif isinstance(target, (ast.Tuple, ast.List)):
            items = self.unpack(v, len(target.elts))
            for t, i in zip(target.elts, items):
                self.assign(t, i)
        elif isinstance(target, ast.Attribute):
            o = self.ev(target.value)
            if not isinstance(o, SObj):
                raise Unsupported(f"attribute store on {o}")
            if o.fields is None:
                ft = o.spec().all_fields().get(target.attr)
                if ft is None:
                    raise Unsupported(f"store to undeclared field {target.attr} of packed {o.cls}")
            ft = o.spec().all_fields().get(target.attr) if o.cls in CLASSES else None
            if isinstance(v, PyEmptyDict) and isinstance(ft, TDict):
                v = SDict(ft, ft.empty())
            elif isinstance(v, PyList) and isinstance(ft, TList):
                v = self.make_list(v.items, ft.e)
            o.setfield(target.attr, v)
        elif isinstance(target, ast.Subscript):
            c = self.ev(target.value)
            k = self.ev(target.slice)
            self.store_item(c, k, v)
        else:
            raise Unsupported("assignment target " + ast.unparse(target))

    def store_item(self, c, k, v):
        if isinstance(c, SDict):
            kt = pack(k, c.typ.k)
            self.dict_store_lemmas(c, kt, v)
            c.store(kt, pack(v, c.typ.v))
        elif isinstance(c, SList):
            idx = self.index(c, k)
            c.store(idx, pack(v, c.typ.e))
            mir = getattr(c, 'mirror', None)
            if mir is not None:
                mir[0].store(idx, mir[1])
        elif isinstance(c, SNDArray):
            idx = self.index(c, k)
            if not isinstance(v, SNum):
                raise Unsupported("non-numeric store into an ndarray")
            c.store(idx, v.real(), False)
        else:
            raise Unsupported(f"item store on {c}")

    def dict_store_lemmas(self, d, kt, v):
        from . import lemmas
        if d.typ.v is TNum or d.typ.v is TInt:
            self.assume(*lemmas.msum_store(d.typ, d.get(), kt, pack(v, d.typ.v)))

    def unpack(self, v, n):
        if isinstance(v, STuple):
            if len(v.items) != n:
                raise PyRaise('ValueError')
            return v.items
        raise Unsupported(f"unpacking of {v}")

    def index(self, lst, k):
        """normalised, bounds-checked index term"""
        if not isinstance(k, SNum) or not k.is_int:
            raise Unsupported("non-integer index")
        i = k.t
        self.may_raise(z3.Or(i >= lst.n, i < -lst.n), 'IndexError')
        return z3.simplify(z3.If(i < 0, i + lst.n, i))

    # ---- expressions -------------------------------------------------------------------------------
    def ev(self, e):
        m = getattr(self, 'ex_' + type(e).__name__, None)
        if m is None:
            raise Unsupported(f"line {self.cur_line}: expression {type(e).__name__}")
        return m(e)

    def ex_Constant(self, e):
        v = e.value
        if isinstance(v, bool):
            return SBool(v)
        if isinstance(v, (int, float)):
            return SNum(v)
        if v is None:
            return NONE
        if isinstance(v, str):
            return str_const(v)
        raise Unsupported(f"constant {v!r}")

    def ex_JoinedStr(self, e):
        return SKey(self.fresh_const(sym.KeyS, 'fstr'))

    def ex_Name(self, e):
        n = e.id
        if n in self.env:
            return self.env[n]
        mod = self.modstack[-1]
        if n in mod.imports:
            return self.resolve_global(mod.imports[n])
        if n in mod.functions:
            return FuncRef(n)
        if n in mod.classes:
            return ClassRef(n)
        if n == 'super':
            return Module('builtins.super')
        if n in mod.constants:
            return self.ex_Constant(ast.Constant(mod.constants[n]))
        if n in BUILTIN_NAMES:
            return Module('builtins.' + n)
        ge = getattr(mod, 'global_exprs', {}).get(n)
        if ge is not None and len(ge) == 1 and n not in mod.constants and not self._rebinds_global(n):
            # a module-level name bound once to a pure expression of constants (numbers, module constants): its value
            if all(isinstance(x, (ast.Constant, ast.Name, ast.Attribute, ast.BinOp, ast.UnaryOp, ast.operator, ast.unaryop,
                                  ast.expr_context)) for x in ast.walk(ge[0])):
                saved = self.env
                self.env = {}
                try:
                    return self.ev(ge[0])
                finally:
                    self.env = saved
        raise Unsupported(f"line {self.cur_line}: name {n}")

    def _rebinds_global(self, n):
        mod = self.modstack[-1]
        for node in ast.walk(mod.tree):
            if isinstance(node, ast.Global) and n in node.names:
                return True
        return False

    def resolve_global(self, dotted):
        last = dotted.split('.')[-1]
        if dotted.startswith('ixai.'):
            if last in CLASSES or f"{last}.__init__" in FUNCS:
                return ClassRef(last)
            if last in FUNCS:
                return FuncRef(last)
        return Module(dotted)

    def ex_Attribute(self, e):
        o = self.ev(e.value)
        return self.getattr(o, e.attr)

    def getattr(self, o, attr):
        if isinstance(o, Module):
            from . import pylib
            if o.path + '.' + attr in pylib.VALUE_ATTRS:
                return pylib.module_value(self, o.path + '.' + attr)
            if o.path + '.' + attr in pylib.NUMERIC_CONSTANTS:
                return SNum(z3.RealVal(pylib.NUMERIC_CONSTANTS[o.path + '.' + attr]))
            return Module(o.path + '.' + attr)
        if isinstance(o, SObj):
            f = o.getfield(attr)
            if f is not None:
                return f
            # property or method
            key = self.resolve_method(o.cls, attr)
            if key is not None:
                fs = FUNCS[key]
                if fs.kind == 'property':
                    return self.call_contract(fs, o, [], {})
                return Bound(o, attr)
            if o.fields is not None and attr in o.spec().all_fields():
                raise PyRaise('AttributeError', f"field {attr} unset")
            if o is self.env.get('self') and self._source_method(attr) is not None:
                return Bound(o, attr)       # a method of the class without a contract: executed in place at the call
            raise Unsupported(f"line {self.cur_line}: attribute {o.cls}.{attr}")
        if isinstance(o, ClassRef):
            mod = self.modstack[-1]
            cinfo = mod.classes.get(o.name)
            if cinfo is not None and attr in cinfo[1]:
                fdef = cinfo[1][attr]
                if any(isinstance(d, ast.Name) and d.id == 'staticmethod' for d in fdef.decorator_list):
                    key = self.resolve_method(o.name, attr) if o.name in CLASSES else None
                    if key is not None:
                        return FuncRef(key)
                    return StaticHelper(mod, o.name, fdef)
        if isinstance(o, SuperRef):
            return Bound(o, attr)
        if isinstance(o, sym.SOutArr) and attr == 'shape':
            # shape tuple of the output-array model (only the leading dimension is ever read)
            return STuple([SNum(o.d0), SNum(o.d1)])
        if isinstance(o, SV):
            return Bound(o, attr)
        raise Unsupported(f"attribute {attr} of {o}")

    def resolve_method(self, clsname, name):
        for c in (CLASSES[clsname].mro() if clsname in CLASSES else [clsname]):
            if f"{c}.{name}" in FUNCS:
                return f"{c}.{name}"
        return None

    def ex_Subscript(self, e):
        c = self.ev(e.value)
        if isinstance(e.slice, ast.Slice):
            raise Unsupported("slice")
        k = self.ev(e.slice)
        return self.load_item(c, k)

    def load_item(self, c, k):
        if isinstance(c, SDict):
            kt = self.key_term(k, c.typ.k)
            self.may_raise(z3.Not(c.dom[kt]), 'KeyError')
            return c.elem(kt)
        if isinstance(c, SList):
            return c.elem(self.index(c, k))
        if isinstance(c, STuple):
            if isinstance(k, SNum) and z3.is_int_value(z3.simplify(k.t)):
                return c.items[z3.simplify(k.t).as_long()]
        from . import pylib
        r = pylib.load_item(self, c, k)
        if r is not None:
            return r
        raise Unsupported(f"line {self.cur_line}: subscript of {c}")

    def key_term(self, k, ktyp):
        if ktyp is TKey and not isinstance(k, SKey):
            if isinstance(k, SNum):
                return num_key(k)
            raise Unsupported(f"key {k} for a Key-keyed dict")
        return pack(k, ktyp)

    def ex_Tuple(self, e):
        return STuple([self.ev(x) for x in e.elts])

    def ex_List(self, e):
        items = [self.ev(x) for x in e.elts]
        return self.make_list(items)

    def make_list(self, items, etyp=None):
        if etyp is None:
            if not items:
                return PyList([])
            etyp = items[0].typ
        lt = TList(etyp)
        t = lt.empty()
        arr = lt.arr(t)
        for i, it in enumerate(items):
            arr = z3.Store(arr, i, pack(it, etyp))
        return SList(lt, lt.mk(z3.IntVal(len(items)), arr))

    def ex_Dict(self, e):
        if not e.keys:
            return PyEmptyDict()
        if all(k is None for k in e.keys):
            # {**a, **b}
            parts = [self.ev(v) for v in e.values]
            return self.dict_merge(parts)
        if any(k is None for k in e.keys):
            raise Unsupported("mixed dict display")
        ks = [self.ev(k) for k in e.keys]
        vs = [self.ev(v) for v in e.values]
        dt = TDict(ks[0].typ if not isinstance(ks[0], SNum) else TKey, _val_type(vs[0]))
        d = SDict(dt, dt.empty())
        for k, v in zip(ks, vs):
            d.store(self.key_term(k, dt.k), pack(v, dt.v))
        return d

    def dict_merge(self, parts):
        parts = [p for p in parts if not isinstance(p, PyEmptyDict)]
        if not parts:
            return PyEmptyDict()
        dt = parts[0].typ
        for p in parts:
            if not isinstance(p, SDict) or p.typ != dt:
                raise Unsupported("dict merge of differently typed dicts")
        cur = parts[0].get()
        for p in parts[1:]:
            nxt = self.fresh(dt, 'merge')
            k = z3.Const(fresh_name('mk'), dt.k.sort())
            nd, nv = dt.dom(nxt.get()), dt.val(nxt.get())
            self.assume(sym.forall([k], z3.And(nd[k] == z3.Or(dt.dom(cur)[k], p.dom[k]),
                                             nv[k] == z3.If(p.dom[k], p.val[k], dt.val(cur)[k])),
                                  [nd[k], nv[k]]))
            cur = nxt.get()
        return SDict(dt, cur)

    def ex_Set(self, e):
        items = [self.ev(x) for x in e.elts]
        st = TSet(items[0].typ)
        t = st.empty()
        for it in items:
            t = z3.Store(t, pack(it), z3.BoolVal(True))
        return SSet(st, t)

    def ex_UnaryOp(self, e):
        v = self.ev(e.operand)
        if isinstance(e.op, ast.Not):
            return SBool(z3.Not(self.truth(v)))
        if isinstance(e.op, ast.USub) and isinstance(v, SNum):
            return SNum(-v.t, v.np, v.fin)
        if isinstance(e.op, ast.UAdd) and isinstance(v, SNum):
            return v
        raise Unsupported("unary " + type(e.op).__name__)

    def ex_BoolOp(self, e):
        is_and = isinstance(e.op, ast.And)
        if self.qstack:
            vals = [self.truth(self.ev(x)) for x in e.values]
            return SBool(z3.And(*vals) if is_and else z3.Or(*vals))
        v = None
        for x in e.values:
            v = self.ev(x)
            t = self.truth(v)
            if x is e.values[-1]:
                return v
            if is_and:
                if not self.choose(t):
                    return v
            else:
                if self.choose(t):
                    return v
        return v

    def ex_IfExp(self, e):
        if self.qstack:
            c = self.truth(self.ev(e.test))
            a, b = self.ev(e.body), self.ev(e.orelse)
            return ite_value(c, a, b)
        if self.choose(self.truth(self.ev(e.test))):
            return self.ev(e.body)
        return self.ev(e.orelse)

    def ex_Compare(self, e):
        left = self.ev(e.left)
        result = None
        for op, rnode in zip(e.ops, e.comparators):
            right = self.ev(rnode)
            r = self.compare(type(op).__name__, left, right)
            if len(e.ops) == 1:
                return SBool(r)
            if self.qstack:
                result = r if result is None else z3.And(result, r)
            else:
                if not self.choose(r):
                    return SBool(False)
                result = z3.BoolVal(True)
            left = right
        return SBool(result)

    def compare(self, op, a, b):
        if op in ('Is', 'IsNot'):
            if (a is NONE and isinstance(b, SVal)) or (b is NONE and isinstance(a, SVal)):
                # an opaque value may BE None (e.g. a target that was not supplied): None is one particular value
                v = b if a is NONE else a
                r = v.t == z3.Const('none_val', sym.ValS)
            elif a is NONE or b is NONE:
                r = z3.BoolVal((a is NONE) and (b is NONE))
            else:
                r = self.equal(a, b)
            return r if op == 'Is' else z3.Not(r)
        if op in ('Eq', 'NotEq'):
            r = self.equal(a, b)
            return r if op == 'Eq' else z3.Not(r)
        if op in ('In', 'NotIn'):
            r = self.contains(b, a)
            return r if op == 'In' else z3.Not(r)
        if a is NONE or b is NONE:
            raise PyRaise('TypeError', 'ordering comparison with None')
        if isinstance(a, SNum) and isinstance(b, SNum):
            x, y = a.t, b.t
            return {'Lt': x < y, 'LtE': x <= y, 'Gt': x > y, 'GtE': x >= y}[op]
        raise Unsupported(f"comparison {op} of {a}, {b}")

    def equal(self, a, b):
        if a is NONE or b is NONE:
            return z3.BoolVal(a is NONE and b is NONE)
        if isinstance(a, SNum) and isinstance(b, SNum):
            return a.t == b.t
        if isinstance(a, SBool) and isinstance(b, SBool):
            return a.t == b.t
        if isinstance(a, SNum) and isinstance(b, SKey):
            return num_key(a) == b.t
        if isinstance(a, SKey) and isinstance(b, SNum):
            return a.t == num_key(b)
        from . import pylib
        if isinstance(a, pylib.DictView) or isinstance(b, pylib.DictView):
            # depends on the iteration (insertion) order of a dict, which the value model leaves open: an opaque condition
            self.trusted.add('comparisons involving the key order of a dict are opaque (either outcome is explored)')
            return self.fresh_const(z3.BoolSort(), 'dict_order_cmp')
        if isinstance(a, SV) and isinstance(b, SV):
            ta, tb = pack(a), pack(b)
            if ta.sort() == tb.sort():
                return ta == tb
            return z3.BoolVal(False)
        raise Unsupported(f"equality of {a}, {b}")

    def contains(self, c, x):
        if isinstance(c, SDict):
            return c.dom[self.key_term(x, c.typ.k)]
        if isinstance(c, SSet):
            return c.dom[self.key_term(x, c.typ.k)]
        if isinstance(c, SList):
            i = z3.Int(fresh_name('ci'))
            return z3.Exists([i], z3.And(i >= 0, i < c.n, c.arr[i] == pack(x, c.typ.e)))
        if isinstance(c, PyList):
            return z3.Or(*[self.equal(x, y) for y in c.items]) if c.items else z3.BoolVal(False)
        if isinstance(c, (PyEmptyDict,)):
            return z3.BoolVal(False)
        from . import pylib
        r = pylib.contains(self, c, x)
        if r is not None:
            return r
        raise Unsupported(f"membership in {c}")

    def truth(self, v):
        if isinstance(v, SBool):
            return v.t
        if isinstance(v, SNum):
            return v.t != 0
        if v is NONE:
            return z3.BoolVal(False)
        if isinstance(v, SList):
            return v.n > 0
        if isinstance(v, (SObj, SFn, Bound, ClassRef, FuncRef, Module)):
            return z3.BoolVal(True)
        if isinstance(v, PyList):
            return z3.BoolVal(bool(v.items))
        if isinstance(v, SVal):
            return z3.Function('truthy', sym.ValS, z3.BoolSort())(v.t)     # opaque values: truthiness is a predicate
        if isinstance(v, SKey):
            return z3.Function('truthy_key', sym.KeyS, z3.BoolSort())(v.t)
        if isinstance(v, SMaybe):
            return z3.And(v.cond, self.truth(v.inner))
        raise Unsupported(f"truth value of {v}")

    def ex_BinOp(self, e):
        return self.binop(type(e.op).__name__, self.ev(e.left), self.ev(e.right))

    def binop(self, op, a, b, inplace=False):
        if isinstance(a, SNum) and isinstance(b, SNum):
            return self.arith(op, a, b)
        if isinstance(a, SBool) and isinstance(b, SNum):
            return self.arith(op, SNum(z3.If(a.t, 1, 0)), b)
        if isinstance(a, SNum) and isinstance(b, SBool):
            return self.arith(op, a, SNum(z3.If(b.t, 1, 0)))
        if op == 'Sub' and isinstance(a, SSet) and isinstance(b, SSet):
            r = self.fresh(a.typ, 'diff')
            k = z3.Const(fresh_name('dk'), a.typ.k.sort())
            self.assume(sym.forall([k], r.dom[k] == z3.And(a.dom[k], z3.Not(b.dom[k])), [r.dom[k]]))
            return r
        if op == 'BitOr' and isinstance(a, SSet) and isinstance(b, SSet):
            r = self.fresh(a.typ, 'union')
            k = z3.Const(fresh_name('dk'), a.typ.k.sort())
            self.assume(sym.forall([k], r.dom[k] == z3.Or(a.dom[k], b.dom[k]), [r.dom[k]]))
            return r
        from . import pylib
        r = pylib.binop(self, op, a, b, inplace)
        if r is not None:
            return r
        raise Unsupported(f"line {self.cur_line}: {op} on {a}, {b}")

    def arith(self, op, a, b):
        np_ = _or_flag(a.np, b.np)
        fin = _and_flag(a.fin, b.fin)
        if self.opts.float_mode and not (a.is_int and b.is_int):
            from . import pylib
            return pylib.float_arith(self, op, a, b)
        if op == 'Add':
            return SNum(a.t + b.t, np_, fin)
        if op == 'Sub':
            return SNum(a.t - b.t, np_, fin)
        if op == 'Mult':
            return SNum(a.t * b.t, np_, fin)
        if op == 'Div':
            if np_ is None:
                self.may_raise(b.t == 0, 'ZeroDivisionError')
                return SNum(a.real() / b.real())
            # NumPy-kind division: no exception; a zero divisor gives a non-finite value
            self.may_raise(z3.And(b.t == 0, z3.Not(np_)), 'ZeroDivisionError')
            return SNum(a.real() / b.real(), np_, z3.And(_flag(fin), b.t != 0))
        if op == 'FloorDiv' and a.is_int and b.is_int:
            self.may_raise(b.t == 0, 'ZeroDivisionError')
            return SNum(_floordiv(a.t, b.t))
        if op == 'Mod' and a.is_int and b.is_int:
            self.may_raise(b.t == 0, 'ZeroDivisionError')
            return SNum(_pymod(a.t, b.t))
        if op == 'Pow':
            bt = z3.simplify(b.t)
            if z3.is_int_value(bt) and bt.as_long() >= 0:
                n = bt.as_long()
                if n == 0:
                    return SNum(1)
                if n == 2 and not self.opts.float_mode:
                    from . import pylib
                    return pylib.square(self, a)
                r = a.t
                for _ in range(n - 1):
                    r = r * a.t
                if n % 2 == 0 and not self.qstack:
                    self.pc.append(r >= 0)      # an even power of a real is non-negative (ground fact about this term)
                elif n % 2 == 0:
                    self.assume(r >= 0)
                return SNum(r, np_, fin)
            if z3.is_rational_value(bt) and bt.numerator_as_long() == 1 and bt.denominator_as_long() == 2:
                # x ** 0.5 : the non-negative root for x >= 0; a negative base gives a complex number
                self.may_raise(a.t < 0, 'ComplexResult')
                return self.sqrt(a)
            if a.is_int is False or True:
                from . import pylib
                return pylib.power(self, a, b)
        raise Unsupported(f"arithmetic {op}")

    def sqrt(self, a):
        from . import pylib
        return pylib.sqrt(self, a)

    # ---- comprehensions ----------------------------------------------------------------------------
    def comp_frames(self, generators):
        """open quantified frames for the generators; returns list of (frame, target binding done)"""
        frames = []
        for g in generators:
            if g.is_async:
                raise Unsupported("async comprehension")
            it = self.to_iter(self.ev(g.iter))
            if it.kind == 'seq':
                i = z3.Int(fresh_name('ci'))
                fr = QFrame([i], z3.And(i >= 0, i < it.n))
                self.qstack.append(fr)
                self.assign(g.target, it.at(i))
                fr.index, fr.it = i, it
            else:
                k = z3.Const(fresh_name('ck'), it.ksort)
                fr = QFrame([k], it.dom[k])
                self.qstack.append(fr)
                self.assign(g.target, it.at(k))
                fr.index, fr.it = k, it
            for c in g.ifs:
                fr.guard = z3.And(fr.guard, self.truth(self.ev(c)))
            frames.append(fr)
        return frames

    def comp_close(self, frames):
        """pop frames; handle exceptions raised by some element"""
        allvars = [v for fr in self.qstack for v in fr.vars]
        guard = z3.And(*[fr.guard for fr in self.qstack])
        raises = [r for fr in frames for r in fr.raises]
        for _ in frames:
            self.qstack.pop()
        if self.qstack and raises:
            # propagate to the enclosing frame
            for cond, exc in raises:
                inner = [v for fr in frames for v in fr.vars]
                g = z3.And(*[fr.guard for fr in frames])
                self.qstack[-1].raises.append((z3.Exists(inner, z3.And(g, cond)), exc))
            return
        for cond, exc in raises:
            ex = z3.Exists(allvars, z3.And(guard, cond))
            if not _mentions(cond, allvars):
                ex = z3.And(z3.Exists(allvars, guard), cond)
            if self.choose(ex):
                raise PyRaise(exc, 'in comprehension')

    def ex_ListComp(self, e):
        saved = dict(self.env)
        frames = self.comp_frames(e.generators)
        if len(frames) != 1 or frames[0].it.kind != 'seq' or e.generators[0].ifs:
            for _ in frames:
                self.qstack.pop()
            self.env = saved
            raise Unsupported("list comprehension other than over one sequence without filter")
        fr = frames[0]
        elt = self.ev(e.elt)
        etyp = _val_type(elt)
        if getattr(elt, 'isnan', False):
            etyp = TNum         # a list of NaN markers: plain numbers plus the NaN mask set below
        self.qstack.pop()       # result array is defined outside the element's frame
        lt = TList(etyp)
        res = self.fresh(lt, 'lc')
        self.assume(res.n == fr.it.n)
        self.qstack.append(fr)
        self.assume(res.arr[fr.index] == pack(elt, etyp))
        self.comp_close(frames)
        self.env = saved
        res.comp_def = (fr.index, pack(elt, etyp))
        if getattr(elt, 'isnan', False):
            res.nan_mask = z3.K(z3.IntSort(), z3.BoolVal(True))
        return res

    def ex_GeneratorExp(self, e):
        return self.ex_ListComp(e)

    def ex_SetComp(self, e):
        saved = dict(self.env)
        nq = len(self.qstack)
        frames = self.comp_frames(e.generators)
        elt = self.ev(e.elt)
        inner_vars = [v for fr in frames for v in fr.vars]
        guard = z3.And(*[fr.guard for fr in frames])
        et = pack(elt)
        for _ in frames:
            self.qstack.pop()
        st = TSet(elt.typ)
        res = self.fresh(st, 'sc')
        l = z3.Const(fresh_name('sl'), st.k.sort())
        self.assume(sym.forall([l], res.dom[l] == z3.Exists(inner_vars, z3.And(guard, et == l)),
                              [res.dom[l]]))
        for fr in frames:
            self.qstack.append(fr)
        self.comp_close(frames)
        self.env = saved
        return res

    def ex_DictComp(self, e):
        saved = dict(self.env)
        frames = self.comp_frames(e.generators)
        key = self.ev(e.key)
        val = self.ev(e.value)
        inner_vars = [v for fr in frames for v in fr.vars]
        guard = z3.And(*[fr.guard for fr in frames])
        ktyp = TKey if isinstance(key, (SNum, SKey)) else key.typ
        kt = self.key_term(key, ktyp)
        vtyp = _val_type(val)
        vt = pack(val, vtyp)
        # soundness of the functional definition: the value may depend on the iteration only through the key
        if not (len(frames) == 1 and (frames[0].it.kind == 'set' or _injective_key(kt, frames[0].index)
                                      or _depends_only_via(vt, kt, inner_vars))):
            for _ in frames:
                self.qstack.pop()
            self.env = saved
            raise Unsupported("dict comprehension whose value is not a function of its key")
        for _ in frames:
            self.qstack.pop()
        dt = TDict(ktyp, vtyp)
        res = self.fresh(dt, 'dc')
        l = z3.Const(fresh_name('dl'), ktyp.sort())
        self.assume(sym.forall([l], res.dom[l] == z3.Exists(inner_vars, z3.And(guard, kt == l)),
                              [res.dom[l]]))
        for fr in frames:
            self.qstack.append(fr)
        self.assume(res.val[kt] == vt)
        self.comp_close(frames)
        self.env = saved
        res.comp_def = (frames[0].index, kt, vt, guard)
        if len(frames) == 1 and frames[0].it.kind == 'seq' and not e.generators[0].ifs and not self.qstack:
            res.order = (frames[0].it.n, frames[0].index, kt, vt, vtyp)
        if vtyp is TNum and not self.qstack:
            from . import lemmas
            self.assume(*lemmas.msum_zero(dt, res.dom, res.val))
        return res

    # ---- iteration ----------------------------------------------------------------------------------
    def to_iter(self, v):
        if isinstance(v, Iter):
            return v
        if isinstance(v, SList):
            snap = v.get()
            lt = v.typ
            return Iter('seq', n=lt.n(snap), at=lambda i: lt.e.wrap(z3.simplify(lt.arr(snap)[i])))
        if isinstance(v, PyList):
            return Iter('seq', n=z3.IntVal(len(v.items)), at=None, concrete=list(v.items))
        if isinstance(v, STuple):
            return Iter('seq', n=z3.IntVal(len(v.items)), at=None, concrete=list(v.items))
        if isinstance(v, SSet):
            return Iter('set', dom=v.get(), ksort=v.typ.k.sort(), at=lambda k: v.typ.k.wrap(k))
        if isinstance(v, SDict):
            snap = v.get()
            return Iter('set', dom=v.typ.dom(snap), ksort=v.typ.k.sort(), at=lambda k: v.typ.k.wrap(k))
        if isinstance(v, PyEmptyDict):
            return Iter('seq', n=z3.IntVal(0), concrete=[])
        from . import pylib
        if isinstance(v, pylib.DictView):
            d = v.d
            if v.what == 'keys':
                at = lambda k: d.typ.k.wrap(k)
            elif v.what == 'values':
                at = lambda k: snapshot(d.elem(k))
            else:
                at = lambda k: STuple([d.typ.k.wrap(k), snapshot(d.elem(k))])
            return Iter('set', dom=d.dom, ksort=d.typ.k.sort(), at=at)
        raise Unsupported(f"line {self.cur_line}: iteration over {v}")

    # ---- calls -----------------------------------------------------------------------------------
    def ex_Call(self, e):
        from . import pylib
        # super().__init__(...)
        if isinstance(e.func, ast.Attribute) and isinstance(e.func.value, ast.Call) \
                and isinstance(e.func.value.func, ast.Name) and e.func.value.func.id == 'super':
            return self.call_super(e)
        f = self.ev(e.func)
        args = []
        for a in e.args:
            if isinstance(a, ast.Starred):
                raise Unsupported("*args at a call")
            args.append(self.ev(a))
        kwargs = {}
        for k in e.keywords:
            if k.arg is None:
                raise Unsupported("**kwargs at a call")
            kwargs[k.arg] = self.ev(k.value)
        return self.call(f, args, kwargs, e)

    def call(self, f, args, kwargs, node=None):
        from . import pylib
        if isinstance(f, Module):
            return pylib.call_module(self, f.path, args, kwargs, node)
        if isinstance(f, SFn):
            return pylib.call_callback(self, f, args, kwargs, node)
        if isinstance(f, Bound):
            recv = f.recv
            if isinstance(recv, SObj):
                key = self.resolve_method(recv.cls, f.name)
                if key is None:
                    r = self.inline_helper(recv, f.name, args, kwargs)
                    if r is not _NO_HELPER:
                        return r
                    raise Unsupported(f"method {recv.cls}.{f.name}")
                if FUNCS[key].kind == 'static':
                    return self.call_contract(FUNCS[key], None, args, kwargs)
                return self.call_contract(FUNCS[key], recv, args, kwargs)
            return pylib.call_method(self, recv, f.name, args, kwargs, node)
        if isinstance(f, StaticHelper):
            if not self._may_inline(f.fdef):
                raise Unsupported(f"static helper {f.cls}.{f.fdef.name} without a contract (not loop-free)")
            self.trusted.add(f"helper {f.cls}.{f.fdef.name} has no contract: its body (read from the source) is executed in place")
            self.inline_depth += 1
            try:
                return self.inline_body(f.mod, f.cls, f.fdef, None, args, kwargs)
            finally:
                self.inline_depth -= 1
        if isinstance(f, ClassRef):
            return self.construct(f.name, args, kwargs)
        if isinstance(f, FuncRef):
            if f.key in FUNCS:
                return self.call_contract(FUNCS[f.key], None, args, kwargs)
            mod = self.modstack[-1]
            fdef = mod.functions.get(f.key.split('.')[-1])
            if fdef is not None and self._may_inline(fdef):
                self.trusted.add(f"helper {f.key} has no contract: its body (read from the source) is executed in place")
                self.inline_depth += 1
                try:
                    return self.inline_body(mod, None, fdef, None, args, kwargs)
                finally:
                    self.inline_depth -= 1
            raise Unsupported(f"call of module function {f.key} without a contract")
        if isinstance(f, SObj):
            key = self.resolve_method(f.cls, '__call__')
            if key is not None:
                return self.call_contract(FUNCS[key], f, args, kwargs)
        raise Unsupported(f"line {self.cur_line}: call of {f}")

    def _may_inline(self, fdef):
        """a helper without a contract is executed in place if it is small, loop-free and not nested too deep"""
        if self.inline_depth >= 3:
            return False
        for n in ast.walk(fdef):
            if isinstance(n, (ast.For, ast.While, ast.Yield, ast.YieldFrom, ast.Lambda, ast.AsyncFunctionDef)):
                return False
            if isinstance(n, ast.FunctionDef) and n is not fdef:
                return False
        return True

    def inline_module_function(self, dotted, args, kwargs):
        """ixai.<module>.<function> without a contract: executed in place (loop-free bodies, depth <= 3)"""
        parts = dotted.split('.')
        fname = parts[-1]
        import os
        path = '/'.join(parts[:-1])
        cand = [path + '.py', path + '/__init__.py']
        for rel in cand:
            if os.path.exists(os.path.join(frontend.REPO, rel)):
                m = frontend.module(rel)
                fdef = m.functions.get(fname)
                if fdef is None and fname in m.imports and m.imports[fname].startswith('ixai.') and m.imports[fname] != dotted:
                    return self.inline_module_function(m.imports[fname], args, kwargs)
                if fdef is None or not self._may_inline(fdef):
                    return _NO_HELPER
                self.trusted.add(f"helper {dotted} has no contract: its body (read from the source) is executed in place")
                self.inline_depth += 1
                try:
                    return self.inline_body(m, None, fdef, None, args, kwargs)
                finally:
                    self.inline_depth -= 1
        return _NO_HELPER

    def _source_method(self, name):
        if not self.clsstack or not self.modstack or self.clsstack[-1] is None:
            return None
        mod, cur = self.modstack[-1], self.clsstack[-1]
        cinfo = mod.classes.get(cur)
        if cinfo is not None and name in cinfo[1]:
            return mod, cur, cinfo[1][name]
        return find_base_method(mod, cur, name)

    def inline_helper(self, recv, name, args, kwargs):
        """a method of `self` that has no contract (e.g. one introduced by an extract-method refactoring): its body, read from
        the class of the function under verification or its bases, is executed in place - exact semantics, no assumption"""
        if recv is not self.env.get('self') or not self.clsstack or not self.modstack:
            return _NO_HELPER
        target = self._source_method(name)
        if target is None:
            return _NO_HELPER
        bmod, bcls, fdef = target
        if any(isinstance(d, ast.Name) and d.id in ('classmethod', 'property') for d in fdef.decorator_list):
            return _NO_HELPER
        static = any(isinstance(d, ast.Name) and d.id == 'staticmethod' for d in fdef.decorator_list)
        if not self._may_inline(fdef):
            return _NO_HELPER
        self.trusted.add(f"helper {bcls}.{name} has no contract: its body (read from the source) is executed in place")
        self.inline_depth += 1
        try:
            return self.inline_body(bmod, bcls, fdef, None if static else recv, args, kwargs)
        finally:
            self.inline_depth -= 1

    def call_super(self, e):
        """constructor chaining: super().__init__(...) executes the base class body read from the same files"""
        meth = e.func.attr
        cur_cls = self.clsstack[-1]
        mod = self.modstack[-1]
        args = [self.ev(a) for a in e.args]
        kwargs = {k.arg: self.ev(k.value) for k in e.keywords}
        if meth != '__init__' and isinstance(self.env.get('self'), SObj):
            # a base-class method other than the constructor: by its contract, like any other call
            key = self.resolve_method(self.env['self'].cls, meth)
            if key is not None:
                return self.call_contract(FUNCS[key], self.env['self'], args, kwargs)
        target = find_base_method(mod, cur_cls, meth)
        if target is None:
            return NONE     # object.__init__
        bmod, bcls, fdef = target
        return self.inline_body(bmod, bcls, fdef, self.env.get('self'), args, kwargs)

    def inline_body(self, bmod, bcls, fdef, selfv, args, kwargs):
        saved_env = self.env
        bound = bind_args(self, fdef, args, kwargs, bmod, skip_self=selfv is not None)
        self.env = dict(bound)
        if selfv is not None:
            self.env['self'] = selfv
        self.modstack.append(bmod)
        self.clsstack.append(bcls)
        saved_ord = self.loop_ord
        self.loop_ord = {}
        try:
            self.exec_block(frontend.strip_docstring(fdef.body))
            r = NONE
        except ReturnSig as rs:
            r = rs.value
        finally:
            self.env = saved_env
            self.modstack.pop()
            self.clsstack.pop()
            self.loop_ord = saved_ord
        return r

    def construct(self, clsname, args, kwargs):
        key = f"{clsname}.__init__"
        if key not in FUNCS:
            raise Unsupported(f"constructor of {clsname} without a contract")
        return self.call_contract(FUNCS[key], None, args, kwargs, constructing=clsname)

    def clause_enabled(self, fs, cname):
        cc = self.opts.callee_clauses
        if cc is None or fs.key not in cc:
            return True
        return cname in cc[fs.key]

    def call_contract(self, fs, recv, args, kwargs, constructing=None):
        """modular call: check the callee's precondition, havoc its frame, assume its postcondition"""
        if self.fspec is not None and fs.key in self.fspec.callee_variants:
            fs = FUNCS[self.fspec.callee_variants[fs.key]]
        elif fs.key + '#list' in FUNCS and any(isinstance(v, (PyList, SList)) for v in list(args) + list(kwargs.values())):
            fs = FUNCS[fs.key + '#list']
        self.called.add(fs.key)
        if fs.inline:
            fdef, mod = locate(fs)
            return self.inline_body(mod, fs.src_cls, fdef, recv, args, kwargs)
        fdef, mod = locate(fs) if fs.file else (None, None)
        a = bind_contract_args(self, fs, fdef, mod, args, kwargs)
        if constructing:
            tobj = TObj(fs.self_cls or constructing)
            newobj = tobj.fresh('new_' + constructing)
            old = None
            recv = newobj
        else:
            old = snapshot(recv) if recv is not None else None
        a0 = {k: (snapshot(v) if isinstance(v, SV) else v) for k, v in a.items()}
        if self.fspec is not None:
            for pref, cutf in self.fspec.cuts.items():
                if fs.key.startswith(pref):
                    g = _conj(self.clause('cut:' + pref, lambda _: cutf(self, NS(a0), recv), None))
                    self.oblige(f"{self.fspec.key}/cut:{pref}", g, kind='cut', clause='cut:' + pref, function=self.fspec.key)
                    self.assume(g)
        cpre = Ctx(old=ObjView(old) if old is not None else None, new=None, a=NS(a0), run=self)
        for cname, f in fs.requires.items():
            self.oblige(f"{self.fspec.key}/call:{fs.key}/pre/{cname}", self.clause(cname, f, cpre), kind='call_pre', clause=cname,
                        function=self.fspec.key, callee=fs.key)
        # exceptional outcomes allowed by the contract
        for exc, r in fs.raises.items():
            if exc == 'CallbackError' and not self.opts.fault_mode:
                continue        # callee failures caused by callbacks are only explored in fault mode
            cond = r['when'](cpre) if r.get('when') else self.fresh_const(z3.BoolSort(), 'raises_' + exc)
            self.may_raise(cond, exc, f"from {fs.key}")
        if fs.may_fail and self.opts.fault_mode:
            self.fault_point(fs.key)
        # normal outcome
        if recv is not None and not constructing and not fs.pure:
            mods = fs.modifies if fs.modifies is not None else list(recv.spec().all_fields().keys())
            for fld in mods:
                cur = recv.getfield(fld)
                if cur is None:
                    continue
                if isinstance(cur, sym.SCompound) and recv.fields is not None:
                    # containers are mutated IN PLACE (aliases held by locals stay valid, as in Python)
                    cur.set(pack(self.havoc_like(cur, f"{fs.key}.{fld}")))
                else:
                    recv.setfield(fld, self.havoc_like(cur, f"{fs.key}.{fld}"))
        for an in fs.modifies_args:
            if isinstance(a.get(an), SV.__mro__[0]) and hasattr(a[an], 'set'):
                a[an].set(pack(self.fresh(a[an].typ, f"{fs.key}.{an}")))
        if fs.returns_self:
            res = recv
        elif constructing:
            res = newobj
        elif fs.ret is not None and fs.pure and _packable(recv, a, fs):
            rs = pack(recv) if recv is not None else None
            ats = [pack(a[p], fs.params.get(p)) for p in fs.params]
            f = spec.pure_fn(fs, rs.sort() if rs is not None else None, [t.sort() for t in ats])
            term = f(*([rs] if rs is not None else []), *ats)
            res = fs.ret.wrap(term)
            self.assume(*fs.ret.wf(term))
        elif fs.ret is not None:
            res = self.fresh(fs.ret, 'res_' + fs.func_name)
        else:
            res = NONE
        gout = {g: self.fresh(gt, 'gout_' + g) for g, (gt, gdef) in fs.ghost_out.items()}
        c = Ctx(old=ObjView(old) if old is not None else None, new=ObjView(recv) if recv is not None else None,
                a=NS(a0), res=view(res), run=self, a_new=NS(a), gout=NS(gout))
        for cn, f in fs.counts.items():
            self.bump(cn, _term(f(c)))
        self.last_gout = gout
        self.events.append({'kind': 'call', 'callee': fs.key, 'args': a0, 'res': res, 'gout': gout, 'recv_old': old,
                            'line': self.cur_line})
        if fs.ghost_update is not None and recv is not None:
            for g, term in fs.ghost_update(c).items():
                gt = recv.spec().all_fields()[g]
                recv.setfield(g, gt.wrap(z3.simplify(_term(term))))
        for cname, f in fs.ensures.items():
            if self.clause_enabled(fs, cname):
                self.assume(_conj(f(c)))
        if recv is not None and fs.exit_inv and not fs.pure:
            for cname, f in recv.spec().all_invariants().items():
                if self.clause_enabled(fs, 'inv:' + cname):
                    self.assume(_conj(f(ObjView(recv))))
            if recv.spec().opaque_inv:
                self.assume(spec.INV(recv.cls, recv.t))
        if fs.opaque is not None:
            self.assume(fs.opaque(c))
        if fs.assume_only:
            self.trusted.add(f"assumed contract: {fs.key}")
        return res

    def fault_point(self, what):
        self.fault_count += 1
        if self.qstack:
            # inside a comprehension: some element's evaluation may fail (handled when the comprehension closes)
            self.qstack[-1].raises.append((self.fresh_const(z3.BoolSort(), 'fault'), 'CallbackError'))
            return
        if self.choose(z3.Bool(fresh_name('fault'))):
            raise PyRaise('CallbackError', what)


def _packable(recv, a, fs):
    try:
        if recv is not None:
            pack(recv)
        for p in fs.params:
            if not isinstance(a.get(p), SV):
                return False
            pack(a[p], fs.params.get(p))
        return True
    except Exception:   # noqa
        return False


def coerce(run, v, typ):
    """value of another representation of the same python value (plain numbers seen as numbers-with-kind)"""
    if isinstance(v, SDict) and isinstance(typ, TDict) and v.typ != typ and v.typ.k == typ.k \
            and v.typ.v in (TNum, TInt) and typ.v is TNumK:
        r = run.fresh(typ, 'asK')
        k = z3.Const(fresh_name('ck'), typ.k.sort())
        mk = TNumK.sort().constructor(0)
        src = v.val[k] if v.typ.v is TNum else z3.ToReal(v.val[k])
        run.assume(r.dom == v.dom, sym.forall([k], z3.Implies(v.dom[k], r.val[k] == mk(src, z3.BoolVal(False), z3.BoolVal(True))),
                                              [r.val[k]]))
        return r
    if isinstance(v, PyEmptyDict) and isinstance(typ, TDict):
        return SDict(typ, typ.empty())
    if isinstance(v, SDict) and isinstance(typ, TDict) and v.typ != typ and v.typ.k == typ.k and v.typ.v is TNumK \
            and typ.v is TNum:
        # numbers-with-kind seen as plain numbers (the kind does not matter to the reader)
        r = run.fresh(typ, 'asNum')
        k = z3.Const(fresh_name('ck'), typ.k.sort())
        run.assume(r.dom == v.dom, sym.forall([k], z3.Implies(v.dom[k], r.val[k] == TNumK.sort().accessor(0, 0)(v.val[k])),
                                              [r.val[k]]))
        return r
    return v


class LoopCtx:
    def __init__(self, run, it, entry_env, entry_self, ghosts):
        self.run, self.it = run, it
        self._entry_env, self._entry_self, self._ghosts = entry_env, entry_self, ghosts
        self.i = None
        self.done = None
        self.elem = None
        self.elem_key = None
        self.exited = False

    @property
    def v(self):
        return NS(self.run.env)

    @property
    def self(self):
        return ObjView(self.run.self_obj)

    @property
    def old(self):
        return ObjView(self.run.old)

    @property
    def a(self):
        return NS(self.run.args0)

    @property
    def entry(self):
        return NS(self._entry_env)

    @property
    def entry_self(self):
        return ObjView(self._entry_self)

    @property
    def g(self):
        return NS(self._ghosts)

    @property
    def lg(self):
        return self.run.lg

    @property
    def n(self):
        return self.it.n

    @property
    def dom(self):
        return self.it.dom

    def seq(self, i):
        return view(self.it.at(i))

    @property
    def events(self):
        return self.run.events

    @property
    def body_events(self):
        """events of the current (arbitrary) iteration"""
        return self.run.events[self.iter_events:]

    def cnt(self, name):
        return self.run.counter(name)

    def entry_cnt(self, name):
        return self.entry_counters.get(name, z3.IntVal(0))

    def iter_cnt(self, name):
        """events of that kind during the current iteration"""
        return self.run.counter(name) - self.iter_counters.get(name, z3.IntVal(0))


# ------------------------------------------------------------------------------------------------
# helper values that stay concrete
# ------------------------------------------------------------------------------------------------
class SMaybe(SV):
    """`d.get(k)` inside a comprehension: the element when present, None otherwise"""

    def __init__(self, cond, inner):
        self.cond, self.inner = cond, inner
        self.typ = None


class PyList(SV):
    """a concrete python list of symbolic values (literal lists, e.g. [feature])"""

    def __init__(self, items):
        self.items = list(items)

    @property
    def typ(self):
        return TList(self.items[0].typ) if self.items else None


class PyEmptyDict(SV):
    """`{}` whose value type is not known yet; becomes a typed dict at the first store"""
    typ = None


BUILTIN_NAMES = {'len', 'sum', 'max', 'min', 'set', 'list', 'dict', 'range', 'zip', 'enumerate', 'reversed', 'sorted', 'float', 'int',
                 'str', 'isinstance', 'hasattr', 'getattr', 'abs', 'round', 'all', 'any', 'type', 'iter', 'tuple',
                 'NotImplementedError', 'ValueError', 'KeyError', 'TypeError', 'AttributeError', 'Exception',
                 'ZeroDivisionError', 'ImportError', 'UserWarning', 'DeprecationWarning', 'print', 'super'}

_str_consts = {}


def str_const(s):
    if s not in _str_consts:
        _str_consts[s] = z3.Const('str_' + ''.join(ch if ch.isalnum() else '_' for ch in s) + f"_{len(_str_consts)}",
                                  sym.KeyS)
    return SKey(_str_consts[s])


def str_distinct_axioms():
    cs = list(_str_consts.values())
    return [z3.Distinct(*cs)] if len(cs) > 1 else []


NumKeyF = z3.Function('num_key', z3.RealSort(), sym.KeyS)


def num_key(n):
    """a number used as a dict key / feature name: injective embedding of the reals into Key
    (Python: 1 == 1.0 hash-equal, so int and float keys coincide - as here)"""
    return NumKeyF(n.real())


def _as_load(t):
    t2 = ast.parse(ast.unparse(t), mode='eval').body
    return t2


def _term(x):
    if isinstance(x, SV):
        return pack(x)
    if isinstance(x, bool):
        return z3.BoolVal(x)
    if isinstance(x, int):
        return z3.IntVal(x)
    if isinstance(x, float):
        return z3.RealVal(x)
    return x


def _conj(x):
    if isinstance(x, (list, tuple)):
        return z3.And(*x) if x else z3.BoolVal(True)
    if isinstance(x, bool):
        return z3.BoolVal(x)
    return x


def _flag(f):
    return z3.BoolVal(True) if f is None else f


def _or_flag(a, b):
    if a is None and b is None:
        return None
    if a is None:
        return b
    if b is None:
        return a
    return z3.Or(a, b)


def _and_flag(a, b):
    if a is None and b is None:
        return None
    return z3.And(_flag(a), _flag(b))


def _floordiv(a, b):
    # python floor division on ints; z3's div rounds so that the remainder is non-negative
    q = a / b
    return z3.If(b > 0, q, z3.If(a % b == 0, q, q - 1))


def _pymod(a, b):
    r = a % b
    return z3.If(b > 0, r, z3.If(r == 0, r, r + b))


def _val_type(v):
    if isinstance(v, SNum):
        if v.np is not None:
            return TNumK
        return TNum
    if isinstance(v, SBool):
        return TBool
    return v.typ


def _mentions(term, vars_):
    ids = {v.get_id() for v in vars_}
    seen = set()
    stack = [term]
    while stack:
        t = stack.pop()
        if t.get_id() in seen:
            continue
        seen.add(t.get_id())
        if t.get_id() in ids:
            return True
        if z3.is_app(t):
            stack.extend(t.children())
        elif z3.is_quantifier(t):
            stack.append(t.body())
    return False


def _injective_key(kt, index):
    return kt.get_id() == index.get_id() or (z3.is_app(kt) and kt.decl().name() == 'num_key'
                                             and kt.num_args() == 1 and
                                             z3.simplify(kt.arg(0)).get_id() == z3.simplify(z3.ToReal(index)).get_id()
                                             if index.sort() == z3.IntSort() else False)


def _depends_only_via(vt, kt, vars_):
    """value term mentions the bound variables only inside occurrences of the key term"""
    ids = {v.get_id() for v in vars_}
    kid = kt.get_id()

    def ok(t):
        if t.get_id() == kid:
            return True
        if t.get_id() in ids:
            return False
        if z3.is_app(t):
            return all(ok(c) for c in t.children())
        if z3.is_quantifier(t):
            return ok(t.body())
        return True
    return ok(vt)


def ite_value(c, a, b):
    if isinstance(a, SNum) and isinstance(b, SNum):
        if a.is_int and b.is_int:
            return SNum(z3.If(c, a.t, b.t))
        return SNum(z3.If(c, a.real(), b.real()), _or_flag(a.np, b.np), _and_flag(a.fin, b.fin))
    if isinstance(a, SBool) and isinstance(b, SBool):
        return SBool(z3.If(c, a.t, b.t))
    ta, tb = pack(a), pack(b)
    if ta.sort() == tb.sort():
        return a.typ.wrap(z3.If(c, ta, tb))
    raise Unsupported("conditional expression of differently typed values inside a comprehension")


MUTATING_METHODS = {'append', 'remove', 'add', 'update', 'pop', 'popleft', 'clear', 'discard', 'extend', 'insert',
                    'setdefault', 'popitem', 'sort', 'reverse', 'appendleft'}


def _call_may_mutate(run, call):
    """does `recv.method(...)` possibly mutate its receiver?  contract methods: per their frame; built-in containers:
    by method name; unknown: yes"""
    meth = call.func.attr
    recv = call.func.value
    if run is not None and isinstance(recv, ast.Attribute) and isinstance(recv.value, ast.Name) and recv.value.id == 'self' \
            and run.self_obj is not None:
        f = run.self_obj.getfield(recv.attr)
        if isinstance(f, SObj):
            key = run.resolve_method(f.cls, meth)
            if key is not None:
                fs = FUNCS[key]
                return not (fs.pure or fs.modifies == [])
        if isinstance(f, SFn):
            return False
    return meth in MUTATING_METHODS or not (isinstance(recv, ast.Name) or isinstance(recv, ast.Attribute)) or \
        (meth not in ('get', 'copy', 'values', 'items', 'keys', 'impute', 'get_data', 'predict_one', 'predict_proba_one',
                      'traverse', 'branch_no', 'next'))


def modified_roots(loop_node, run=None):
    """names / self.fields syntactically assigned or mutated in a loop body (conservative havoc set)"""
    roots = set()

    def root_of(t):
        while isinstance(t, (ast.Subscript, ast.Attribute)):
            if isinstance(t, ast.Attribute) and isinstance(t.value, ast.Name) and t.value.id == 'self':
                return 'self.' + t.attr
            t = t.value
        if isinstance(t, ast.Name):
            return t.id
        if isinstance(t, ast.Call):
            return root_of(t.func)
        return None

    def add_target(t):
        if isinstance(t, (ast.Tuple, ast.List)):
            for x in t.elts:
                add_target(x)
        else:
            r = root_of(t)
            if r:
                roots.add(r)

    for n in ast.walk(loop_node):
        if isinstance(n, ast.Assign):
            for t in n.targets:
                add_target(t)
        elif isinstance(n, (ast.AugAssign, ast.AnnAssign)):
            add_target(n.target)
        elif isinstance(n, ast.For):
            add_target(n.target)
        elif isinstance(n, ast.Delete):
            for t in n.targets:
                add_target(t)
        elif isinstance(n, ast.Call) and isinstance(n.func, ast.Attribute):
            # method call: receiver may be mutated
            r = root_of(n.func.value)
            if r and r != 'self' and _call_may_mutate(run, n):
                roots.add(r)
        elif isinstance(n, ast.ExceptHandler) and n.name:
            roots.add(n.name)
    roots.discard('self')
    return sorted(roots)


def find_base_method(mod, clsname, meth):
    """(module, class, FunctionDef) of the first base of clsname defining meth, following imports"""
    cinfo = mod.classes.get(clsname)
    if cinfo is None:
        return None
    for b in cinfo[2]:
        bname = b.split('.')[-1]
        if bname in ('ABC', 'object') or b.startswith('abc.') or b.startswith('metaclass'):
            continue
        if bname in mod.classes:
            bmod = mod
        elif bname in mod.imports and mod.imports[bname].startswith('ixai.'):
            path = mod.imports[bname].rsplit('.', 1)[0].replace('.', '/')
            import os
            if os.path.isdir(os.path.join(frontend.REPO, path)):
                # imported from a package __init__: follow its import
                pk = frontend.module(path + '/__init__.py')
                if bname in pk.imports:
                    path = pk.imports[bname].rsplit('.', 1)[0].replace('.', '/')
            bmod = frontend.module(path + '.py')
        else:
            continue
        if bname in bmod.classes:
            if meth in bmod.classes[bname][1]:
                return bmod, bname, bmod.classes[bname][1][meth]
            r = find_base_method(bmod, bname, meth)
            if r is not None:
                return r
    return None


def locate(fs):
    mod = frontend.module(fs.file)
    fdef = frontend.find_function(fs.file, fs.src_cls, fs.func_name)
    if fdef is None:
        raise Unsupported(f"{fs.key}: function not found in {fs.file} (renamed or removed)")
    return fdef, mod


def param_defaults(fdef):
    """name -> default expression for positional/keyword parameters"""
    a = fdef.args
    pos = a.posonlyargs + a.args
    out = {}
    for p, d in zip(pos[len(pos) - len(a.defaults):], a.defaults):
        out[p.arg] = d
    for p, d in zip(a.kwonlyargs, a.kw_defaults):
        if d is not None:
            out[p.arg] = d
    return out


def param_names(fdef, skip_self):
    a = fdef.args
    pos = [p.arg for p in a.posonlyargs + a.args]
    if skip_self and pos and pos[0] in ('self', 'cls'):
        pos = pos[1:]
    return pos, [p.arg for p in a.kwonlyargs]


def bind_args(run, fdef, args, kwargs, mod, skip_self=True):
    pos, kwonly = param_names(fdef, skip_self)
    defaults = param_defaults(fdef)
    out = {}
    if len(args) > len(pos):
        raise PyRaise('TypeError', 'too many positional arguments')
    for n, v in zip(pos, args):
        out[n] = v
    for k, v in kwargs.items():
        if k in out:
            raise PyRaise('TypeError', f'multiple values for {k}')
        if k not in pos and k not in kwonly:
            if fdef.args.kwarg is None:
                raise PyRaise('TypeError', f'unexpected keyword {k}')
            continue
        out[k] = v
    for n in pos + kwonly:
        if n not in out:
            if n in defaults:
                run.modstack.append(mod)
                try:
                    out[n] = run.ev(defaults[n])
                finally:
                    run.modstack.pop()
            else:
                raise PyRaise('TypeError', f'missing argument {n}')
    return out


def bind_contract_args(run, fs, fdef, mod, args, kwargs):
    if fdef is not None:
        skip = fs.kind in ('method', 'init', 'property')
        if fs.kind == 'static':
            skip = False
        out = bind_args(run, fdef, args, kwargs, mod, skip_self=skip)
    else:
        names = list(fs.params.keys())
        out = dict(zip(names, args))
        out.update(kwargs)
    for p, t in fs.params.items():
        v = out.get(p)
        if isinstance(v, PyList) and isinstance(t, TList):
            out[p] = run.make_list(v.items, t.e)
        elif isinstance(v, PyEmptyDict) and isinstance(t, TDict):
            out[p] = SDict(t, t.empty())
        elif t is TVal and isinstance(v, SV) and not isinstance(v, SVal):
            out[p] = SVal(pack(v, TVal))
    return out
