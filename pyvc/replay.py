"""Replay of solver counterexamples on the real code (generic part).

A `sat` answer is decoded into a concrete pre-state and arguments; the real class from /repo is
instantiated, the real method is run, and the violated clause (the same lambda the VC was built
from) is re-evaluated on concrete exact numbers (fractions.Fraction).
"""
import importlib
from fractions import Fraction

from . import spec


def num(v):
    if isinstance(v, bool):
        return v
    if isinstance(v, int):
        return v
    if isinstance(v, dict) and 'frac' in v:
        return Fraction(v['frac'][0], v['frac'][1])
    if isinstance(v, dict) and 'approx' in v:
        return Fraction(v['approx']).limit_denominator(10 ** 9)
    return v


def decode_basic(ob, model):
    """{'self': {field: value}, 'args': {param: value}} from the model's constants (named base!k)"""
    out = {'self': {}, 'args': {}, 'other': {}}
    for k, v in sorted(model.items()):
        base = k.split('!')[0]
        if base.startswith('self.'):
            out['self'].setdefault(base[5:], v)
        elif '.' not in base:
            out['args'].setdefault(base, v)
    out['function'] = ob.meta.get('function')
    out['clause'] = ob.meta.get('clause')
    out['kind'] = ob.meta.get('kind')
    out['obligation'] = ob.id
    return out


def _safe_str(x):
    try:
        return str(x)
    except Exception:   # noqa
        return object.__repr__(x)


class Rec:
    def __init__(self, d):
        self.__dict__.update(d)

    def has(self, n):
        return n in self.__dict__


def load_class(dotted):
    mod, name = dotted.rsplit('.', 1)
    return getattr(importlib.import_module(mod), name)


def replay_scalar(w, real_class, real_fields, method, ctor=None):
    """generic replay for methods of records with scalar fields (trackers).
    real_class: dotted path; real_fields: fields to set on the instance from the witness."""
    fs = spec.FUNCS[w['function']]
    cls_spec = spec.CLASSES[fs.self_cls or fs.cls_name]
    C = load_class(real_class)
    obj = C.__new__(C)
    state = {k: 0 for k in cls_spec.all_fields()}
    state.update({k: num(v) for k, v in w['self'].items()})
    for f in real_fields:
        if f in state:
            setattr(obj, f, state[f])
    args = {k: num(v) for k, v in w['args'].items() if k in fs.params}
    old = Rec(dict(state))
    exc = None
    res = None
    try:
        m = getattr(obj, method)
        res = m(**args) if callable(m) else m
    except Exception as ex:   # noqa
        exc = ex
    new_state = dict(state)
    for f in real_fields:
        if hasattr(obj, f):
            new_state[f] = getattr(obj, f)
    ctx = spec.Ctx(old=old, new=Rec(new_state), a=Rec(args), res=res)
    if fs.ghost_update is not None and exc is None:
        try:
            new_state.update(fs.ghost_update(ctx))
            ctx.new = Rec(new_state)
        except Exception:   # noqa
            pass
    clause = w['clause']
    kind = w['kind']
    observed = {'pre_state': {k: str(v) for k, v in state.items()}, 'args': {k: str(v) for k, v in args.items()},
                'post_state': {k: str(v) for k, v in new_state.items()}, 'result': _safe_str(res),
                'exception': repr(exc) if exc else None}
    holds = None
    try:
        if kind == 'no_exception':
            holds = exc is None
        elif exc is not None:
            holds = None
        elif kind in ('post', 'iface'):
            f = fs.ensures.get(clause) or (spec.FUNCS[fs.implements].ensures.get(clause) if fs.implements else None)
            holds = bool(f(ctx)) if f else None
        elif kind == 'inv':
            f = cls_spec.all_invariants().get(clause.split(':', 1)[1])
            holds = bool(f(ctx.new)) if f else None
        elif kind == 'frame':
            fld = clause.split(':', 1)[1]
            holds = state.get(fld) == new_state.get(fld)
    except Exception as ex:   # noqa
        observed['clause_eval_error'] = repr(ex)
    observed['clause_holds'] = holds
    observed['confirmed'] = holds is False
    return observed
