"""Sidecar contract DSL: class specs, function specs, loop specs, registries.

The sidecar never contains a body of repository code: contracts only. Functions are bound to the
real source by (file, class, function name) and re-read from /repo on every run.
"""
import z3
from fractions import Fraction
from . import sym
from .sym import (T, TInt, TNum, TNumK, TBool, TKey, TVal, TFn, TFnRole, TNone, TDict, TSet, TList, TTuple, TObj, TArr, SArr,
                  SNum, SBool, SKey, SVal, SFn, SDict, SSet, SList, STuple, SObj, NONE)

FUNCS = {}      # "Class.method" / "function" -> FuncSpec
CLASSES = sym.CLASSES


class TOpt(T):
    """Optional[t] - only for parameters (forked at entry) and locals"""

    def __init__(self, t):
        self.t = t
        self.name = f"Opt_{t.name}"


class ClassSpec:
    def __init__(self, name, file=None, bases=(), fields=None, ghost=None, invariant=None, abstract=False,
                 impls=(), notes='', optional=(), opaque_inv=False):
        self.name = name
        self.file = file
        self.bases = list(bases)
        self.fields = dict(fields or {})
        self.ghost = dict(ghost or {})
        self.invariant = dict(invariant or {})
        self.abstract = abstract
        self.impls = list(impls)
        self.notes = notes
        self.optional = list(optional)
        self.opaque_inv = opaque_inv

    def all_fields(self):
        out = {}
        for b in self.bases:
            if b in CLASSES:
                out.update(CLASSES[b].all_fields())
        out.update(self.fields)
        out.update(self.ghost)
        return out

    def fields_all_real(self):
        out = {}
        for b in self.bases:
            if b in CLASSES:
                out.update(CLASSES[b].fields_all_real())
        out.update(self.fields)
        return out

    def ghost_all(self):
        out = {}
        for b in self.bases:
            if b in CLASSES:
                out.update(CLASSES[b].ghost_all())
        out.update(self.ghost)
        return out

    def all_invariants(self):
        out = {}
        for b in self.bases:
            if b in CLASSES:
                out.update(CLASSES[b].all_invariants())
        out.update(self.invariant)
        return out

    def mro(self):
        out = [self.name]
        for b in self.bases:
            if b in CLASSES:
                for c in CLASSES[b].mro():
                    if c not in out:
                        out.append(c)
            elif b not in out:
                out.append(b)
        return out


def cls(name, **kw):
    c = ClassSpec(name, **kw)
    CLASSES[name] = c
    return c


class LoopSpec:
    def __init__(self, inv=None, ghosts=None, modifies=None, lemmas=None, unroll=False, body=None, counters=None):
        self.inv = dict(inv or {})          # clause -> lambda(lc) -> BoolRef | [BoolRef]
        self.ghosts = dict(ghosts or {})    # name -> (type, init lambda(lc), step lambda(lc))
        self.modifies = modifies            # optional explicit list of roots
        self.lemmas = lemmas                # lambda(lc) -> [BoolRef] extra hypotheses (lemma instances)
        self.unroll = unroll
        self.counters = counters            # event counters the loop body may advance (None: all)
        self.body = dict(body or {})        # clause -> lambda(lc): checked at the end of an arbitrary iteration


class FuncSpec:
    def __init__(self, key, file, params=None, self_cls=None, kind='method', requires=None, ensures=None,
                 raises=None, modifies=None, modifies_args=(), ghost_update=None, pure=False, ret=None,
                 returns_self=False, loops=None, lemmas=None, logical=None, inline=False, may_fail=False,
                 assume_only=False, entry_inv=True, exit_inv=True, notes='', src_cls=None, implements=None,
                 local_types=None, exc_inv=False, src_name=None, opaque=None, callee_variants=None, mirrors=None,
                 counts=None, ghost_out=None, body_ensures=None, entry_lemmas=None, cuts=None, exit_cuts=None, clause_lemmas=None):
        self.key = key
        self.file = file
        self.params = dict(params or {})
        self.self_cls = self_cls
        self.kind = kind                    # method | init | property | static | function
        self.requires = dict(requires or {})
        self.ensures = dict(ensures or {})
        self.raises = dict(raises or {})    # exc name -> {'when': lambda(c), 'post': {clause: lambda(c)}}
        self.modifies = modifies            # list of self fields that may change (None: all may change)
        self.modifies_args = list(modifies_args)
        self.ghost_update = ghost_update
        self.pure = pure
        self.ret = ret
        self.returns_self = returns_self
        self.loops = list(loops or [])
        self.lemmas = lemmas                # lambda(c) -> [BoolRef] added as hypotheses at exit
        self.logical = dict(logical or {})  # logical (ghost) variables: name -> type
        self.inline = inline                # trivial forwarding function: symbolic execution inlines the body
        self.may_fail = may_fail            # interface call that may raise anything (fault mode)
        self.assume_only = assume_only      # contract is assumed, not verified against a body (interface / dependency)
        self.entry_inv = entry_inv
        self.exit_inv = exit_inv
        self.notes = notes
        self.src_cls = src_cls if src_cls is not None else (key.split('.')[0] if '.' in key else None)
        self.implements = implements
        self.local_types = dict(local_types or {})
        self.exc_inv = exc_inv
        self.src_name = src_name
        self.clause_lemmas = dict(clause_lemmas or {})   # clause -> lambda(c) -> lemma instances used for that clause only
        self.exit_cuts = list(exit_cuts or [])   # [(name, lambda(c))]: proof steps at normal exit, each proved then assumed, in order
        self.cuts = dict(cuts or {})    # callee key prefix -> lambda(run, args NS): intermediate assertion proved, then assumed, just before that call
        self.entry_lemmas = entry_lemmas        # lambda(c) -> [BoolRef]: lemma instances assumed at entry
        self.body_ensures = dict(body_ensures or {})   # postcondition clauses over the body's own events (draw discipline): proved, never assumed at call sites
        self.counts = dict(counts or {})        # event counter -> lambda(c) -> number of events one call adds
        self.ghost_out = dict(ghost_out or {})  # ghost results: name -> (type, lambda(c) -> defining term at exit of the body)
        self.mirrors = dict(mirrors or {})   # real list field -> (ghost list field, lambda(c) -> value recorded per write)
        self.callee_variants = dict(callee_variants or {})
        self.opaque = opaque            # lambda(c) -> opaque atom standing for the whole postcondition (assumed at call sites)

    @property
    def cls_name(self):
        return self.key.split('.')[0] if '.' in self.key else None

    @property
    def func_name(self):
        return self.src_name or self.key.split('.')[-1].split('#')[0]


def fn(key, file=None, **kw):
    f = FuncSpec(key, file, **kw)
    FUNCS[key] = f
    return f


def loop(**kw):
    return LoopSpec(**kw)


# ------------------------------------------------------------------------------------------------
# views handed to contract clauses: attribute access yields z3 terms (atoms) or SV containers
# ------------------------------------------------------------------------------------------------
def view(v):
    if isinstance(v, SNum):
        return v.t
    if isinstance(v, (SBool, SKey, SVal, SFn, SArr)):
        return v.t
    if isinstance(v, SObj):
        return ObjView(v)
    if isinstance(v, STuple):
        return tuple(view(i) for i in v.items)
    return v


class ObjView:
    def __init__(self, obj):
        object.__setattr__(self, '_o', obj)

    def __getattr__(self, name):
        f = self._o.getfield(name)
        if f is None:
            raise AttributeError(f"{self._o.cls} has no field {name} (unset)")
        return view(f)

    def has(self, name):
        return self._o.getfield(name) is not None

    @property
    def term(self):
        return self._o.t


class NS:
    """simple namespace of views (arguments, locals)"""

    def __init__(self, d):
        object.__setattr__(self, '_d', d)

    def __getattr__(self, name):
        if name not in self._d:
            raise AttributeError(name)
        return view(self._d[name])

    def has(self, name):
        return name in self._d and self._d[name] is not None


class Ctx:
    """context of a function-level clause: old/new self, args (entry values), result, events, logical vars"""

    def __init__(self, old=None, new=None, a=None, res=None, run=None, lg=None, a_new=None, gout=None, cnt0=None):
        self.old, self.new, self.a, self.res, self.run, self.lg, self.a_new = old, new, a, res, run, lg, a_new
        self.gout = gout
        self.cnt0 = cnt0 or {}

    def added(self, name):
        """number of events of that kind since function entry (symbolic)"""
        return self.run.counter(name) - self.cnt0.get(name, 0)

    @property
    def events(self):
        return self.run.events if self.run else []


# helpers usable in clauses -------------------------------------------------------------------------
def _conc(*xs):
    """all arguments are concrete python values (dual evaluation of clauses during replay)"""
    return all(isinstance(x, (bool, int, float, Fraction)) for x in xs)


def implies(a, b):
    return ((not a) or b) if _conc(a, b) else z3.Implies(a, b)


def land(*xs):
    if _conc(*xs):
        return all(xs)
    return z3.And(*xs) if xs else z3.BoolVal(True)


def lor(*xs):
    if _conc(*xs):
        return any(xs)
    return z3.Or(*xs) if xs else z3.BoolVal(False)


def lnot(a):
    return (not a) if _conc(a) else z3.Not(a)


def ite(c, a, b):
    if isinstance(c, bool):
        return a if c else b
    return z3.If(c, a, b)


def forall_key(f, sort=sym.KeyS, pats=None):
    k = z3.Const(sym.fresh_name('qk'), sort)
    body = f(k)
    p = pats(k) if pats else None
    return sym.forall([k], body, p)


def forall_int(f, pats=None):
    i = z3.Int(sym.fresh_name('qi'))
    body = f(i)
    p = pats(i) if pats else None
    return sym.forall([i], body, p)


def exists_int(f):
    i = z3.Int(sym.fresh_name('qe'))
    return z3.Exists([i], f(i))


def exists_key(f, sort=sym.KeyS):
    k = z3.Const(sym.fresh_name('qe'), sort)
    return z3.Exists([k], f(k))


def R(x):
    """to real"""
    if isinstance(x, (int, float, Fraction)):
        return Fraction(x) if not isinstance(x, float) else x
    return z3.ToReal(x) if x.sort() == z3.IntSort() else x


_pure_fns = {}


def pure_fn(fs, recv_sort, arg_sorts):
    """a pure function under contract is a deterministic function of (receiver state, arguments)"""
    k = (fs.key, str(recv_sort), tuple(str(a) for a in arg_sorts))
    if k not in _pure_fns:
        name = 'pure_' + fs.key.replace('.', '_').replace('#', '_')
        doms = ([recv_sort] if recv_sort is not None else []) + list(arg_sorts)
        _pure_fns[k] = z3.Function(name, *doms, fs.ret.sort())
    return _pure_fns[k]


def pure_call(key, objview, *args):
    """the result of a pure function under contract, as a spec-level term (same term the call site gets)"""
    fs = FUNCS[key]
    f = pure_fn(fs, objview.term.sort() if objview is not None else None, [a.sort() for a in args])
    term = f(*([objview.term] if objview is not None else []), *args)
    return view(fs.ret.wrap(term))


_inv_preds = {}


def INV(clsname, term):
    """opaque class invariant: an uninterpreted predicate that stands for the conjunction of the class's
    invariant clauses (assumed exactly where the revealed clauses are; revealed on demand)"""
    if clsname not in _inv_preds:
        _inv_preds[clsname] = z3.Function('INV_' + clsname, term.sort(), z3.BoolSort())
    return _inv_preds[clsname](term)


def reveal_inv(clsname, term):
    """definition of the opaque invariant at one term"""
    o = ObjView(SObj(clsname, term=term))
    return INV(clsname, term) == land(*[_c(f(o)) for f in CLASSES[clsname].all_invariants().values()])


def _c(x):
    if isinstance(x, (list, tuple)):
        return z3.And(*x)
    return x


def str_key(s):
    """the Key constant of a string literal"""
    from .symex import str_const
    return str_const(s).t
