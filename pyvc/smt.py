"""Back ends: every obligation is serialised to SMT-LIB 2 and discharged in a worker process
(z3 first, cvc5 for z3's `unknown`; thorough tier: both and they must not disagree)."""
import os
import time
import multiprocessing as mp

import z3

from . import sym, symex

Z3_TIMEOUT_MS = int(os.environ.get('PYVC_Z3_TIMEOUT_MS', '60000'))
CVC5_TIMEOUT_MS = int(os.environ.get('PYVC_CVC5_TIMEOUT_MS', '60000'))
WORKERS = int(os.environ.get('PYVC_WORKERS', '12'))


def global_axioms():
    ax = list(symex.str_distinct_axioms())
    x = z3.Real('nk!x')
    inv = z3.Function('key_num', sym.KeyS, z3.RealSort())
    from .pylib import IS_NUM
    ax.append(z3.ForAll([x], z3.And(inv(symex.NumKeyF(x)) == x, IS_NUM(symex.NumKeyF(x))),
                        patterns=[symex.NumKeyF(x)]))
    for c in symex._str_consts.values():
        ax.append(z3.Not(IS_NUM(c)))
    return ax


def _top_forall(h):
    return z3.is_quantifier(h) and h.is_forall()


def to_smt2(obl, with_axioms=True, small=False, inst=False, ground=False):
    s = z3.Solver()
    if ground:
        # the quantifier-free hypotheses and the quantifier-free instances only
        for h in obl.hyps + obl.instances():
            if not symex._has_quantifier(h):
                s.add(h)
        s.add(z3.Not(obl.goal))
        return s.to_smt2()
    # small: the hypotheses without the top-level universally quantified ones, plus their instances at the goal's
    # terms.  Dropping hypotheses is sound for a proof attempt.
    hyps = [x for x in obl.hyps if not _top_forall(x)] if small else list(obl.hyps)
    if inst or small:
        hyps += obl.instances()
    for h in hyps:
        s.add(h)
    s.add(z3.Not(obl.goal))
    text = s.to_smt2()
    if with_axioms:
        ax = list(symex.str_distinct_axioms())
        if 'num_key' in text or 'is_num_key' in text:
            ax = global_axioms()
        if ax:
            for a in ax:
                s.add(a)
            text = s.to_smt2()
    return text


_DECODE_BUDGET = [0]


def _decode(model, t, depth=0):
    """python structure of a model value (best effort, finite universes, bounded size)"""
    if depth == 0:
        _DECODE_BUDGET[0] = 1500
    _DECODE_BUDGET[0] -= 1
    if _DECODE_BUDGET[0] <= 0 or depth > 5:
        return '<...>'
    try:
        v = model.eval(t, model_completion=True)
        srt = v.sort()
        if z3.is_int_value(v):
            return v.as_long()
        if z3.is_rational_value(v):
            n, d = v.numerator_as_long(), v.denominator_as_long()
            return n if d == 1 else {'frac': [n, d], 'approx': n / d}
        if z3.is_algebraic_value(v):
            return {'approx': float(v.approx(10).as_fraction())}
        if z3.is_true(v):
            return True
        if z3.is_false(v):
            return False
        if srt.kind() == z3.Z3_UNINTERPRETED_SORT:
            return str(v)
        if srt.kind() == z3.Z3_DATATYPE_SORT:
            out = {}
            for i in range(srt.constructor(0).arity()):
                acc = srt.accessor(0, i)
                out[acc.name().split('_', 1)[-1] if False else acc.name()] = _decode(model, acc(v), depth + 1)
            # lists: cut the array at n
            names = list(out.keys())
            if len(names) == 2 and names[0].endswith('_n') and names[1].endswith('_arr') and isinstance(out[names[0]], int):
                n = max(0, min(out[names[0]], 6))
                arr = srt.accessor(0, 1)(v)
                return {'list': [_decode(model, arr[i], depth + 1) for i in range(n)], 'n': out[names[0]]}
            if len(names) == 2 and names[0].endswith('_dom') and names[1].endswith('_val'):
                dom = srt.accessor(0, 0)(v)
                val = srt.accessor(0, 1)(v)
                ks = dom.sort().domain()
                uni = _universe(model, ks)
                return {'dict': {str(k): _decode(model, val[k], depth + 1) for k in uni[:6]
                                 if z3.is_true(model.eval(dom[k], model_completion=True))}}
            return out
        if srt.kind() == z3.Z3_ARRAY_SORT:
            ks = srt.domain()
            if ks.kind() == z3.Z3_INT_SORT:
                return {'int_array_prefix': [_decode(model, v[i], depth + 1) for i in range(6)]}
            uni = _universe(model, ks)
            return {'array': {str(k): _decode(model, v[k], depth + 1) for k in uni[:6]}}
        return str(v)
    except Exception as ex:   # noqa
        return f"<undecodable: {ex}>"


def _universe(model, srt):
    try:
        u = model.get_universe(srt)
        return list(u) if u is not None else []
    except Exception:   # noqa
        return []


def _z3_inproc(text, timeout_ms, want_model, seed=0):
    s = z3.Solver()
    s.set('timeout', timeout_ms)
    if seed:
        s.set('random_seed', seed)
    s.from_string(text)
    t0 = time.time()
    r = s.check()
    dt = time.time() - t0
    out = {'status': str(r), 'time': dt, 'solver': 'z3-' + z3.get_version_string()}
    if r == z3.sat and want_model:
        m = s.model()
        vals = {}
        for d in m.decls():
            if d.arity() == 0:
                vals[d.name()] = _decode(m, d())
        out['model'] = vals
    if r == z3.unknown:
        out['reason'] = s.reason_unknown()
    return out


Z3_BIN = 'z3-new'


def _z3_check(text, timeout_ms, want_model, seed=0):
    """z3 as a separate process with a hard wall-clock limit (the in-process timeout is not always honoured inside
    preprocessing); a `sat` answer is re-derived in-process only to decode the model"""
    import subprocess
    t0 = time.time()
    secs = max(1, int(round(timeout_ms / 1000.0)))
    try:
        args = [Z3_BIN, '-smt2', '-in', f'-T:{secs}'] + ([f'smt.random_seed={seed}', f'sat.random_seed={seed}'] if seed else [])
        p = subprocess.run(args, input=text + '\n(check-sat)\n' if '(check-sat)' not in text else text, capture_output=True, text=True,
                           timeout=secs + 5)
        lines = (p.stdout or '').strip().splitlines()
        st = lines[0].strip() if lines else 'unknown'
        if st not in ('sat', 'unsat'):
            return {'status': 'unknown', 'time': time.time() - t0, 'solver': 'z3-5.1.0', 'reason': (st or 'timeout')[:80]}
        out = {'status': st, 'time': time.time() - t0, 'solver': 'z3-5.1.0'}
        if st == 'sat' and want_model:
            try:
                r2 = _z3_inproc(text, min(timeout_ms, 10000), True, seed)
                if r2['status'] == 'sat':
                    out['model'] = r2.get('model')
            except Exception:   # noqa
                pass
        return out
    except subprocess.TimeoutExpired:
        return {'status': 'unknown', 'time': time.time() - t0, 'solver': 'z3-5.1.0', 'reason': 'wall-clock timeout'}
    except Exception as ex:   # noqa
        return {'status': 'unknown', 'time': time.time() - t0, 'solver': 'z3-5.1.0', 'reason': f'z3 error: {ex}'[:200]}


def _has_quant(t):
    stack = [t]
    seen = set()
    while stack:
        x = stack.pop()
        if x.get_id() in seen:
            continue
        seen.add(x.get_id())
        if z3.is_quantifier(x):
            return True
        if z3.is_app(x):
            stack.extend(x.children())
    return False


def _relaxed_check(text, timeout_ms, want_model):
    t0 = time.time()
    try:
        asserts = z3.parse_smt2_string(text)
        s = z3.Solver()
        s.set('timeout', timeout_ms)
        for a in asserts:
            if not _has_quant(a):
                s.add(a)
        r = s.check()
        out = {'status': str(r), 'time': time.time() - t0, 'solver': 'z3-relaxed(quantifier-free part)'}
        if r == z3.sat and want_model:
            m = s.model()
            out['model'] = {d.name(): _decode(m, d()) for d in m.decls() if d.arity() == 0}
        return out
    except Exception as ex:   # noqa
        return {'status': 'unknown', 'time': time.time() - t0, 'solver': 'z3-relaxed', 'reason': str(ex)[:200]}


def _cvc5_check(text, timeout_ms):
    """cvc5 as a separate process (hard wall-clock limit: a stuck solver can never block a check)"""
    import subprocess
    t0 = time.time()
    try:
        p = subprocess.run(['/usr/bin/cvc5', '--lang=smt2', '--arrays-exp', f'--tlimit={timeout_ms}', '-'],
                           input='(set-logic ALL)\n' + text, capture_output=True, text=True,
                           timeout=timeout_ms / 1000.0 + 5)
        out = (p.stdout or '').strip().splitlines()
        st = out[0].strip() if out else 'unknown'
        if st not in ('sat', 'unsat'):
            return {'status': 'unknown', 'time': time.time() - t0, 'solver': 'cvc5-1.0.3',
                    'reason': ((p.stdout or '') + (p.stderr or ''))[:200]}
        return {'status': st, 'time': time.time() - t0, 'solver': 'cvc5-1.0.3'}
    except subprocess.TimeoutExpired:
        return {'status': 'unknown', 'time': time.time() - t0, 'solver': 'cvc5-1.0.3', 'reason': 'wall-clock timeout'}
    except Exception as ex:   # noqa
        return {'status': 'unknown', 'time': time.time() - t0, 'solver': 'cvc5-1.0.3', 'reason': f'cvc5 error: {ex}'[:200]}


_OBLS = []


def _work(job):
    """runs in a forked worker: the obligation's ASTs are inherited from the parent, serialisation happens here"""
    z3.set_param('warning', False)
    idx, tier = job
    o = _OBLS[idx]
    want_model = not o.expect_sat
    res = {'id': idx, 'runs': []}
    text = None

    def full_text():
        nonlocal text
        if text is None:
            text = to_smt2(o)
        return text
    if not want_model:
        # vacuity canary: only `unsat` (contradictory hypotheses) is bad; keep it cheap
        r = _z3_check(full_text(), 1500, False)
        res['runs'].append(r)
        res.update(status=r['status'], model=None, time=r['time'], backend=r['solver'])
        return res
    # 1. plain attempt, short
    r = _z3_check(full_text(), 6000, want_model)
    res['runs'].append({k: v for k, v in r.items() if k != 'model'})
    status = r['status']
    model = r.get('model')
    if status == 'unknown':
        # 2. without the top-level universally quantified hypotheses, with their instances at the goal's terms
        r0 = _z3_check(to_smt2(o, ground=True), 5000, False)
        r0['solver'] += ' (ground instances only)'
        res['runs'].append(r0)
        if r0['status'] != 'unsat':
            small_text = to_smt2(o, small=True)
            r0 = _z3_check(small_text, 10000, False)
            r0['solver'] += ' (instances only)'
            res['runs'].append(r0)
        if r0['status'] != 'unsat':
            r0 = _cvc5_check(small_text, 8000)
            r0['solver'] += ' (instances only)'
            res['runs'].append(r0)
        if r0['status'] == 'unsat':
            res.update(status='unsat', model=None, time=sum(x['time'] for x in res['runs']), backend=r0['solver'])
            return res
        text = to_smt2(o, inst=True)      # 3. everything plus the instances
    cand = None
    if status == 'unknown':
        r3 = _cvc5_check(text, CVC5_TIMEOUT_MS if tier == 'thorough' else 20000)
        res['runs'].append(r3)
        if r3['status'] == 'unsat':
            status = 'unsat'
    if status == 'unknown':
        r5 = _z3_check(full_text() if False else text, 30000 if tier == 'thorough' else 15000, want_model)
        res['runs'].append({k: v for k, v in r5.items() if k != 'model'})
        if r5['status'] != 'unknown':
            status, model = r5['status'], r5.get('model')
    if status == 'unknown':
        # the quantifier-free part alone: unsat => proved (fewer hypotheses suffice); sat => only a CANDIDATE model
        r4 = _relaxed_check(text, 20000, want_model)
        res['runs'].append({k: v for k, v in r4.items() if k != 'model'})
        if r4['status'] == 'unsat':
            status = 'unsat'
        elif r4['status'] == 'sat':
            cand = r4.get('model')
    if status == 'unknown' and (cand is None or tier == 'thorough'):
        r2 = _z3_check(text, Z3_TIMEOUT_MS if tier == 'thorough' else 25000, want_model, seed=7)
        res['runs'].append({k: v for k, v in r2.items() if k != 'model'})
        if r2['status'] != 'unknown':
            status, model = r2['status'], r2.get('model')
    if status in ('sat', 'unsat') and tier == 'thorough' and not any(x['solver'].startswith('cvc5') for x in res['runs']):
        r3 = _cvc5_check(text or full_text(), 20000)
        res['runs'].append(r3)
        if r3['status'] in ('sat', 'unsat') and r3['status'] != status:
            status = 'disagree'
    if status == 'unknown' and cand is not None:
        # counterexample mode: believed only after native replay on the real code (cli)
        status, model = 'sat?', cand
    res['status'] = status
    res['model'] = model
    res['time'] = sum(x['time'] for x in res['runs'])
    res['backend'] = next((x['solver'] for x in res['runs'] if x['status'] == status), res['runs'][0]['solver'])
    return res


def discharge(obligations, tier='quick', workers=None):
    """results in the order of the obligations"""
    global _OBLS
    if not obligations:
        return []
    _OBLS = list(obligations)
    jobs = [(i, tier) for i in range(len(_OBLS))]
    workers = workers or WORKERS
    if len(jobs) <= 2 or workers <= 1:
        return [_work(j) for j in jobs]
    ctx = mp.get_context('fork')
    with ctx.Pool(min(workers, len(jobs))) as pool:
        return pool.map(_work, jobs, chunksize=1)
