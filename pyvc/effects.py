"""Effect contracts (C18): a closed-world entropy analysis over the real source.

Every call in every function of ixai/{storage,imputer,explainer,utils} must resolve to
  (i)   a function / method / class of the library itself,
  (ii)  a declared callback (the user's model, loss, metric, imputer, storage, river tree objects),
  (iii) a library primitive classified deterministic, or
  (iv)  a draw from the MODULE-LEVEL generators random.* / np.random.*.
Anything else is an unclassified effect and fails the obligation `<function>/effects/closed`.
Explicitly forbidden: time, datetime.now, os.urandom, uuid, secrets, id(), hash() of objects, generator instances
(random.Random / SystemRandom / default_rng / RandomState).  Constructors of dependencies that take a seed carry the
precondition "seed is not None" (`<function>/pre/<ctor>.seed_not_none`).
"""
import ast
import os

from . import frontend

SCOPE = ['ixai/storage', 'ixai/imputer', 'ixai/explainer', 'ixai/utils']
GLOBAL_DRAWS = {'random.random', 'random.randrange', 'random.randint', 'random.choices', 'random.choice', 'random.shuffle',
                'random.uniform', 'random.sample', 'random.gauss',
                'numpy.random.permutation', 'numpy.random.normal', 'numpy.random.rand', 'numpy.random.randint',
                'numpy.random.choice', 'numpy.random.shuffle', 'numpy.random.uniform', 'numpy.random.random'}
FORBIDDEN_PREFIXES = ('time.', 'datetime.', 'os.urandom', 'os.getpid', 'uuid.', 'secrets.', 'random.Random', 'random.SystemRandom',
                      'numpy.random.default_rng', 'numpy.random.RandomState', 'numpy.random.Generator', 'numpy.random.seed',
                      'random.seed', 'builtins.id', 'builtins.hash', 'threading.', 'multiprocessing.', 'socket.', 'os.environ')
DETERMINISTIC_PREFIXES = ('numpy.', 'math.', 'copy.', 'warnings.', 'typing.', 'abc.', 'collections.', 'tqdm.', 'torch.', 'river.',
                          'sklearn.', 'itertools.', 'functools.', 'builtins.')
SEEDED_CTORS = {'HoeffdingAdaptiveTreeClassifier', 'HoeffdingAdaptiveTreeRegressor', 'HoeffdingTreeClassifier',
                'HoeffdingTreeRegressor'}
BUILTINS = {'len', 'sum', 'max', 'min', 'set', 'list', 'dict', 'range', 'zip', 'enumerate', 'float', 'int', 'str', 'isinstance',
            'hasattr', 'abs', 'round', 'all', 'any', 'type', 'iter', 'tuple', 'super', 'print', 'sorted', 'reversed', 'bool',
            'getattr', 'setattr', 'next', 'map', 'filter', 'repr', 'NotImplementedError', 'ValueError', 'KeyError', 'TypeError',
            'AttributeError', 'Exception', 'ZeroDivisionError', 'ImportError', 'UserWarning', 'DeprecationWarning'}
FORBIDDEN_BUILTINS = {'id', 'hash', 'open', 'input', 'exec', 'eval', '__import__'}


def _dotted(node):
    parts = []
    while isinstance(node, ast.Attribute):
        parts.append(node.attr)
        node = node.value
    if isinstance(node, ast.Name):
        parts.append(node.id)
        return list(reversed(parts))
    return None


def analyse():
    """returns (obligations, details): obligations = list of dicts {id, ok, detail, function, file}"""
    out = []
    files = []
    for d in SCOPE:
        root = os.path.join(frontend.REPO, d)
        for dp, _, fns in os.walk(root):
            for f in sorted(fns):
                if f.endswith('.py'):
                    files.append(os.path.relpath(os.path.join(dp, f), frontend.REPO))
    draws = []
    for rel in sorted(files):
        mod = frontend.module(rel)
        # import-time code: module level statements, class bodies, decorators and DEFAULT ARGUMENT expressions are evaluated
        # when the module is imported - i.e. possibly before the user seeds the generators: no draw, no entropy source there
        bad_import = []

        def scan_import_time(node, where):
            for n in ast.walk(node):
                if isinstance(n, ast.Call):
                    d = _dotted(n.func)
                    if d is None:
                        continue
                    head = d[0]
                    full = '.'.join([mod.imports[head]] + d[1:]) if head in mod.imports else '.'.join(d)
                    if full in GLOBAL_DRAWS or any(full.startswith(p) for p in FORBIDDEN_PREFIXES) \
                            or full.startswith('random.') or full.startswith('numpy.random.') or head in FORBIDDEN_BUILTINS:
                        bad_import.append(f"line {n.lineno}: {full}(...) is evaluated at import time ({where})")
        for node in mod.tree.body:
            if isinstance(node, (ast.FunctionDef, ast.ClassDef)):
                defs = [node] if isinstance(node, ast.FunctionDef) else \
                    [n for n in node.body if isinstance(n, ast.FunctionDef)]
                for fd in defs:
                    for dflt in list(fd.args.defaults) + [d for d in fd.args.kw_defaults if d is not None]:
                        scan_import_time(dflt, f"default argument of {fd.name}")
                    for dec in fd.decorator_list:
                        scan_import_time(dec, f"decorator of {fd.name}")
                if isinstance(node, ast.ClassDef):
                    for n in node.body:
                        if not isinstance(n, ast.FunctionDef):
                            scan_import_time(n, f"body of class {node.name}")
            elif not isinstance(node, (ast.Import, ast.ImportFrom)):
                scan_import_time(node, "module level")
        out.append({'id': f"{rel}/import_time/no_entropy", 'ok': not bad_import, 'function': rel, 'file': rel,
                    'detail': '; '.join(bad_import)})
        # mutable state shared by all instances of a class (a class-level set / list / dict) or by the module: results would
        # depend on library objects used before
        shared = []

        def _mutable_value(v):
            if isinstance(v, (ast.List, ast.Dict, ast.Set, ast.ListComp, ast.DictComp, ast.SetComp)):
                return True
            if isinstance(v, ast.Call):
                d = _dotted(v.func)
                return d is not None and d[-1] in ('set', 'list', 'dict', 'defaultdict', 'deque', 'OrderedDict', 'Counter')
            return False
        for node in mod.tree.body:
            if isinstance(node, ast.ClassDef):
                for n in node.body:
                    tg, v = None, None
                    if isinstance(n, ast.Assign) and len(n.targets) == 1 and isinstance(n.targets[0], ast.Name):
                        tg, v = n.targets[0].id, n.value
                    elif isinstance(n, ast.AnnAssign) and isinstance(n.target, ast.Name) and n.value is not None:
                        tg, v = n.target.id, n.value
                    if tg and not tg.startswith('__') and _mutable_value(v):
                        shared.append(f"line {n.lineno}: class attribute {node.name}.{tg} is a mutable container shared by all instances")
        out.append({'id': f"{rel}/class_state/no_shared_mutable", 'ok': not shared, 'function': rel, 'file': rel,
                    'detail': '; '.join(shared)})
        funcs = [(None, f) for f in mod.functions.values()]
        for cname, (cdef, methods, bases) in mod.classes.items():
            funcs += [(cname, m) for m in methods.values()]
        for cname, fdef in funcs:
            key = f"{rel}:{cname + '.' if cname else ''}{fdef.name}"
            params = {a.arg for a in fdef.args.args + fdef.args.kwonlyargs}
            defaults_none = set()
            pos = fdef.args.args
            for a, dflt in zip(pos[len(pos) - len(fdef.args.defaults):], fdef.args.defaults):
                if isinstance(dflt, ast.Constant) and dflt.value is None:
                    defaults_none.add(a.arg)
            for a, dflt in zip(fdef.args.kwonlyargs, fdef.args.kw_defaults):
                if isinstance(dflt, ast.Constant) and dflt.value is None:
                    defaults_none.add(a.arg)
            # a parameter that is re-bound before use (e.g. `if seed is None: seed = random.randrange(..)`) is no longer None
            rebound = set()
            for n in ast.walk(fdef):
                if isinstance(n, ast.Assign):
                    for t in n.targets:
                        if isinstance(t, ast.Name):
                            rebound.add(t.id)
            local_names = set(params)
            for n in ast.walk(fdef):
                if isinstance(n, (ast.Assign, ast.AugAssign, ast.AnnAssign, ast.For)):
                    tg = n.targets if isinstance(n, ast.Assign) else [n.target]
                    for t in tg:
                        for x in ast.walk(t):
                            if isinstance(x, ast.Name):
                                local_names.add(x.id)
                elif isinstance(n, ast.comprehension):
                    for x in ast.walk(n.target):
                        if isinstance(x, ast.Name):
                            local_names.add(x.id)
                elif isinstance(n, ast.ExceptHandler) and n.name:
                    local_names.add(n.name)
            bad = []
            for n in ast.walk(fdef):
                if not isinstance(n, ast.Call):
                    continue
                d = _dotted(n.func)
                if d is None:
                    continue        # call of a computed callable: (ii) callback or result of a library call
                head = d[0]
                if head in ('self', 'cls') or head in local_names:
                    continue        # method of an object of the library or a declared callback / dependency object
                if head in mod.imports:
                    full = '.'.join([mod.imports[head]] + d[1:])
                elif head in mod.functions or head in mod.classes:
                    continue        # (i)
                elif head in BUILTINS and len(d) == 1:
                    continue
                elif head in FORBIDDEN_BUILTINS and len(d) == 1:
                    bad.append(f"line {n.lineno}: forbidden builtin {head}()")
                    continue
                else:
                    bad.append(f"line {n.lineno}: call of unresolved name {'.'.join(d)}")
                    continue
                if full.startswith('ixai.'):
                    continue        # (i)
                if full in GLOBAL_DRAWS:
                    draws.append((key, full, n.lineno))
                    continue        # (iv)
                if any(full.startswith(p) for p in FORBIDDEN_PREFIXES):
                    bad.append(f"line {n.lineno}: forbidden entropy source / effect {full}")
                    continue
                if full.startswith('random.') or full.startswith('numpy.random.'):
                    bad.append(f"line {n.lineno}: unclassified use of a random module: {full}")
                    continue
                last = full.split('.')[-1]
                if last in SEEDED_CTORS:
                    seed_kw = [k for k in n.keywords if k.arg == 'seed']
                    ok = False
                    if seed_kw:
                        v = seed_kw[0].value
                        if isinstance(v, ast.Constant) and v.value is not None:
                            ok = True
                        elif isinstance(v, ast.Name) and (v.id not in defaults_none or v.id in rebound):
                            ok = True
                        elif not isinstance(v, (ast.Constant, ast.Name)):
                            ok = True
                    out.append({'id': f"{key}/pre/{last}.seed_not_none", 'ok': ok, 'function': key, 'file': rel,
                                'detail': f"line {n.lineno}: {last}(seed=...) must receive a seed that is not None "
                                          f"(None makes river use random.Random(None): OS entropy)"})
                    continue
                if any(full.startswith(p) for p in DETERMINISTIC_PREFIXES):
                    continue        # (iii)
                bad.append(f"line {n.lineno}: unclassified call {full}")
            out.append({'id': f"{key}/effects/closed", 'ok': not bad, 'function': key, 'file': rel, 'detail': '; '.join(bad)})
    return out, draws
