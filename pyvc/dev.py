"""development helper: verify functions by key and print the verdict of every obligation
usage: python -m pyvc.dev <contracts module> <key> [<key> ...]"""
import sys
import importlib
import time
from collections import defaultdict

from . import verify, smt, spec, symex


def run(keys, opts=None, tier='quick', verbose=True):
    t0 = time.time()
    reports = []
    obls = []
    for k in keys:
        fs = spec.FUNCS[k]
        rep = verify.verify_function(fs, opts)
        reports.append(rep)
        obls += rep.obligations
        if rep.unsupported:
            print(f"UNSUPPORTED {k}: {rep.unsupported}")
    res = smt.discharge(obls, tier)
    agg = defaultdict(list)
    for o, r in zip(obls, res):
        agg[o.id].append((o, r))
    bad = 0
    for oid, lst in agg.items():
        sts = [r['status'] for _, r in lst]
        exp = lst[0][0].expect_sat
        if exp:
            ok = any(s != 'unsat' for s in sts)      # vacuous: NO path of the function is feasible under the assumed hypotheses
            verdict = 'canary-ok' if ok else 'VACUOUS'
        else:
            ok = all(s == 'unsat' for s in sts)
            verdict = 'discharged' if ok else '/'.join(sorted(set(sts)))
        if not ok:
            bad += 1
        tm = sum(r['time'] for _, r in lst)
        if verbose or not ok or tm > 3:
            print(f"{verdict:12s} {oid}  [{len(lst)} path(s), {tm*1000:.0f} ms]")
            if not ok and not exp:
                for o, r in lst:
                    if r['status'] != 'unsat':
                        print('     piece', o.meta.get('piece'), 'path', o.meta.get('path'), r['status'], [(x['solver'], x['status'], round(x['time'],1)) for x in r['runs']], 'goal:', str(o.goal)[:300].replace('\n',' '))
                        print("     detail:", o.meta.get('detail'), 'line', o.meta.get('line'))
                        if r.get('model'):
                            m = r['model']
                            keys_ = sorted(m)[:40]
                            print("     model:", str({k: m[k] for k in keys_})[:700])
                        if r['status'] == 'unknown':
                            print("     reason:", [x.get('reason') for x in r['runs']])
                        break
    print(f"{len(agg)} obligations, {bad} not ok, {sum(r.paths for r in reports)} paths, {time.time()-t0:.1f}s")
    return reports, agg


if __name__ == '__main__':
    mods = [a for a in sys.argv[1:] if a.startswith('contracts.')]
    for m in mods:
        importlib.import_module(m)
    keys = [a for a in sys.argv[1:] if not a.startswith('contracts.') and not a.startswith('-')]
    if not keys:
        keys = [k for k, f in spec.FUNCS.items() if f.file and not f.assume_only and not f.inline]
    run(keys, verbose='-q' not in sys.argv)
