"""Front end: re-reads the real source files under the repository root on every run.

What the extraction drops (DESIGN.md 3.9): docstrings, comments, type annotations, the text of
f-strings and assert messages. Decorators @property/@staticmethod/@abc.abstractmethod are
interpreted; super() is resolved along the class table read from the same files.
"""
import ast
import hashlib
import os

REPO = os.environ.get('IXAI_REPO', '/repo')


class ModuleInfo:
    def __init__(self, relpath):
        self.relpath = relpath
        self.path = os.path.join(REPO, relpath)
        with open(self.path, 'rb') as fh:
            raw = fh.read()
        self.sha256 = hashlib.sha256(raw).hexdigest()
        self.src = raw.decode()
        self.tree = ast.parse(self.src, filename=self.path)
        self.imports = {}       # local name -> dotted target ("numpy", "random", "ixai.explainer.base._get_mean_model_output")
        self.functions = {}     # name -> FunctionDef
        self.classes = {}       # name -> (ClassDef, {method name -> FunctionDef}, [base names])
        self.constants = {}     # module-level NAME = constant
        self.global_exprs = {}  # module-level NAME = <other expression> (all assignments)
        self._scan()

    def _scan(self):
        pkg = self.relpath[:-3].replace('/', '.').split('.')
        for node in self.tree.body:
            self._scan_stmt(node, pkg)

    def _scan_stmt(self, node, pkg):
        if isinstance(node, ast.Import):
            for a in node.names:
                self.imports[a.asname or a.name.split('.')[0]] = a.name if a.asname else a.name.split('.')[0]
        elif isinstance(node, ast.ImportFrom):
            if node.level:
                base = pkg[:-node.level]
                mod = '.'.join(base + ([node.module] if node.module else []))
            else:
                mod = node.module
            for a in node.names:
                self.imports[a.asname or a.name] = f"{mod}.{a.name}"
        elif isinstance(node, ast.FunctionDef):
            self.functions[node.name] = node
        elif isinstance(node, ast.ClassDef):
            methods = {n.name: n for n in node.body if isinstance(n, ast.FunctionDef)}
            bases = [ast.unparse(b) for b in node.bases]
            self.classes[node.name] = (node, methods, bases)
        elif isinstance(node, ast.Assign) and len(node.targets) == 1 and isinstance(node.targets[0], ast.Name):
            if isinstance(node.value, ast.Constant):
                self.constants[node.targets[0].id] = node.value.value
            else:
                self.global_exprs.setdefault(node.targets[0].id, []).append(node.value)
        elif isinstance(node, ast.AnnAssign) and isinstance(node.target, ast.Name) and node.value is not None:
            if isinstance(node.value, ast.Constant):
                self.constants[node.target.id] = node.value.value
            else:
                self.global_exprs.setdefault(node.target.id, []).append(node.value)
        elif isinstance(node, ast.Try):
            for n in node.body:
                self._scan_stmt(n, pkg)


_modules = {}


def reset():
    _modules.clear()


def module(relpath):
    if relpath not in _modules:
        _modules[relpath] = ModuleInfo(relpath)
    return _modules[relpath]


def decorators(fdef):
    out = []
    for d in fdef.decorator_list:
        out.append(ast.unparse(d))
    return out


def find_function(relpath, cls, name):
    """FunctionDef of cls.name (or module-level name) in relpath; None when absent"""
    m = module(relpath)
    if cls is None:
        return m.functions.get(name)
    c = m.classes.get(cls)
    if c is None:
        return None
    return c[1].get(name)


def strip_docstring(body):
    if body and isinstance(body[0], ast.Expr) and isinstance(body[0].value, ast.Constant) \
            and isinstance(body[0].value.value, str):
        return body[1:]
    return body


def loops_of(fdef):
    """`for` statements of a function in source order (nested included), comprehension loops excluded"""
    out = []

    class V(ast.NodeVisitor):
        def visit_For(self, node):
            out.append(node)
            self.generic_visit(node)

        def visit_FunctionDef(self, node):
            if node is fdef:
                self.generic_visit(node)

        def visit_Lambda(self, node):
            pass
    V().visit(fdef)
    return out


def sources_read():
    return {m.relpath: m.sha256 for m in _modules.values()}
