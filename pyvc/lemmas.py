"""SMT mirror of the Lean lemma library (/verif/lemmas/Lemmas.lean).

`msum` (sum of a finite map over its key set) and `ssum` (sum of the first n entries of a sequence)
are uninterpreted in the VCs; the facts below are *instances* of theorems proved in Lean over
Finset.sum / Finset.range sums.  Each function names the Lean theorem it mirrors.  All program
containers are finite (assumption A-fin), which is what lets a Finset stand for a dict's key set.
"""
import z3

_msum = {}
_ssum = None
USED = set()


def msum_fn(dt):
    if dt.name not in _msum:
        _msum[dt.name] = z3.Function('msum_' + dt.k.name, z3.ArraySort(dt.k.sort(), z3.BoolSort()),
                                     z3.ArraySort(dt.k.sort(), z3.RealSort()), z3.RealSort())
    return _msum[dt.name]


def _rv(dt, val):
    """value array as a Real array (Int-valued dicts are summed as reals)"""
    return val


def msum(dt, term):
    return msum_fn(dt)(dt.dom(term), dt.val(term))


def msum_dv(dt, dom, val):
    return msum_fn(dt)(dom, val)


def msum_empty(dt, val=None):
    """Lean: msum_empty  (Finset.sum_empty)"""
    USED.add('msum_empty')
    e = dt.empty()
    return [msum_fn(dt)(dt.dom(e), val if val is not None else dt.val(e)) == 0]


def msum_store(dt, dterm, k, v):
    """Lean: msum_insert (Finset.sum_insert) and msum_update (Finset.sum_update_of_mem / add_sub_cancel)"""
    USED.add('msum_insert')
    USED.add('msum_update')
    dom, val = dt.dom(dterm), dt.val(dterm)
    f = msum_fn(dt)
    if dt.v.sort() != z3.RealSort():
        return []
    new = f(z3.Store(dom, k, z3.BoolVal(True)), z3.Store(val, k, v))
    return [z3.Implies(z3.Not(dom[k]), new == f(dom, val) + v),
            z3.Implies(dom[k], new == f(dom, val) - val[k] + v)]


def msum_congr(dt, dom, v1, v2):
    """Lean: msum_congr (Finset.sum_congr): equal on the key set => equal sums"""
    USED.add('msum_congr')
    k = z3.Const('cg!k', dt.k.sort())
    f = msum_fn(dt)
    return [z3.Implies(z3.ForAll([k], z3.Implies(dom[k], v1[k] == v2[k])), f(dom, v1) == f(dom, v2))]


def msum_linear(dt, dom, v3, v1, v2, a, b):
    """Lean: msum_linear: v3 = a*v1 + b*v2 pointwise on the key set => msum v3 = a*msum v1 + b*msum v2"""
    USED.add('msum_linear')
    k = z3.Const('ln!k', dt.k.sort())
    f = msum_fn(dt)
    return [z3.Implies(z3.ForAll([k], z3.Implies(dom[k], v3[k] == a * v1[k] + b * v2[k])),
                       f(dom, v3) == a * f(dom, v1) + b * f(dom, v2))]


def msum_scale(dt, dom, v2, v1, c):
    """Lean: msum_scale: v2 = v1 * c pointwise => msum v2 = msum v1 * c"""
    USED.add('msum_scale')
    k = z3.Const('sc!k', dt.k.sort())
    f = msum_fn(dt)
    return [z3.Implies(z3.ForAll([k], z3.Implies(dom[k], v2[k] == v1[k] * c)), f(dom, v2) == f(dom, v1) * c)]


def msum_nonneg(dt, dom, v):
    """Lean: msum_nonneg (Finset.sum_nonneg)"""
    USED.add('msum_nonneg')
    k = z3.Const('nn!k', dt.k.sort())
    f = msum_fn(dt)
    return [z3.Implies(z3.ForAll([k], z3.Implies(dom[k], v[k] >= 0)), f(dom, v) >= 0)]


def ssum_fn():
    global _ssum
    if _ssum is None:
        _ssum = z3.Function('ssum', z3.ArraySort(z3.IntSort(), z3.RealSort()), z3.IntSort(), z3.RealSort())
    return _ssum


def ssum(arr, n):
    return ssum_fn()(arr, n)


def ssum_zero(arr):
    """Lean: ssum_zero (Finset.sum_range_zero)"""
    USED.add('ssum_zero')
    return [ssum(arr, z3.IntVal(0)) == 0]


def ssum_snoc(arr, n):
    """Lean: ssum_succ (Finset.sum_range_succ)"""
    USED.add('ssum_succ')
    return [z3.Implies(n >= 0, ssum(arr, n + 1) == ssum(arr, n) + arr[n])]


def ssum_const(arr, n, c):
    """Lean: ssum_const: all of the first n entries equal c => ssum = n * c"""
    USED.add('ssum_const')
    i = z3.Int('sc!i')
    return [z3.Implies(z3.And(n >= 0, z3.ForAll([i], z3.Implies(z3.And(i >= 0, i < n), arr[i] == c))),
                       ssum(arr, n) == z3.ToReal(n) * c)]


def ssum_const_axiom():
    """Lean: ssum_const, universally closed (pattern: the ssum term)"""
    USED.add('ssum_const')
    arr = z3.Const('sca!a', z3.ArraySort(z3.IntSort(), z3.RealSort()))
    n = z3.Int('sca!n')
    i = z3.Int('sca!i')
    return [z3.ForAll([arr, n], z3.Implies(
        z3.And(n >= 1, z3.ForAll([i], z3.Implies(z3.And(i >= 0, i < n), arr[i] == arr[0]))),
        ssum(arr, n) == z3.ToReal(n) * arr[0]), patterns=[ssum(arr, n)])]


def ssum_succ_axiom():
    """Lean: ssum_succ, universally closed (pattern: ssum(a, n + 1))"""
    USED.add('ssum_succ')
    a = z3.Const('ssa!a', z3.ArraySort(z3.IntSort(), z3.RealSort()))
    n = z3.Int('ssa!n')
    return [z3.ForAll([a, n], z3.Implies(n >= 0, ssum(a, n + 1) == ssum(a, n) + a[n]), patterns=[ssum(a, n + 1)]),
            z3.ForAll([a], ssum(a, z3.IntVal(0)) == 0, patterns=[ssum(a, z3.IntVal(0))])]


def ssum_congr(a1, a2, n):
    """Lean: ssum_congr"""
    USED.add('ssum_congr')
    i = z3.Int('sg!i')
    return [z3.Implies(z3.ForAll([i], z3.Implies(z3.And(i >= 0, i < n), a1[i] == a2[i])), ssum(a1, n) == ssum(a2, n))]


def ssum_store_last(arr, n, v):
    """appending at position n leaves the first n entries: ssum(Store(arr,n,v), n) = ssum(arr, n)
    Lean: ssum_congr instance"""
    USED.add('ssum_congr')
    return [z3.Implies(n >= 0, ssum(z3.Store(arr, n, v), n) == ssum(arr, n))]


def dict_ext(dt, a, b):
    """extensionality of dict terms (a fact of the array/datatype theories, stated to spare the solver the search):
    equal domains and equal values everywhere => equal dict terms"""
    k = z3.Const('ext!k', dt.k.sort())
    return z3.Implies(z3.ForAll([k], z3.And(dt.dom(a)[k] == dt.dom(b)[k], dt.val(a)[k] == dt.val(b)[k])), a == b)


def ssum_congr_axiom():
    """Lean: ssum_congr, universally closed (pattern: the two ssum terms)"""
    USED.add('ssum_congr')
    a = z3.Const('sga!a', z3.ArraySort(z3.IntSort(), z3.RealSort()))
    b = z3.Const('sga!b', z3.ArraySort(z3.IntSort(), z3.RealSort()))
    n = z3.Int('sga!n')
    i = z3.Int('sga!i')
    return [z3.ForAll([a, b, n], z3.Implies(
        z3.ForAll([i], z3.Implies(z3.And(i >= 0, i < n), a[i] == b[i])), ssum(a, n) == ssum(b, n)),
        patterns=[z3.MultiPattern(ssum(a, n), ssum(b, n))])]


def msum_empty_dom(dt, dom, val):
    """Lean: msum_empty: a sum over an empty key set is 0 (whatever the value array)"""
    USED.add('msum_empty')
    k = z3.Const('me!k', dt.k.sort())
    return [z3.Implies(z3.ForAll([k], z3.Not(dom[k])), msum_fn(dt)(dom, val) == 0)]


def msum_zero(dt, dom, val):
    """Lean: msum_zero (Finset.sum_eq_zero): all values on the key set are 0 => the sum is 0"""
    USED.add('msum_zero')
    k = z3.Const('mz!k', dt.k.sort())
    return [z3.Implies(z3.ForAll([k], z3.Implies(dom[k], val[k] == 0)), msum_fn(dt)(dom, val) == 0)]


def msum_div(dt, dom, v2, v1, c):
    """Lean: msum_div (msum_scale with 1/c): v2 = v1 / c pointwise on the key set => msum v2 = msum v1 / c"""
    USED.add('msum_div')
    k = z3.Const('dv!k', dt.k.sort())
    f = msum_fn(dt)
    return [z3.Implies(z3.ForAll([k], z3.Implies(dom[k], v2[k] == v1[k] / c)), f(dom, v2) == f(dom, v1) / c)]
