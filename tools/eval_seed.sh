#!/bin/sh
# usage: tools/eval_seed.sh <worktree> <prop> [<prop> ...]   - run checks against a scratch tree carrying a seeded change
wt=$1; shift
for p in "$@"; do
  s=$(date +%s)
  out=$(cd /verif && IXAI_REPO=$wt ./check $p 2>&1); rc=$?
  e=$(date +%s)
  echo "== $p on $wt: rc=$rc $((e-s))s"
  echo "$out" | grep -E "^\[C|VIOLATION|UNDECIDED|CHECKER-ERROR|failed:" | cut -c1-260 | head -12
done
