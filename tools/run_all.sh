#!/bin/sh
# runs every registered check once (quick tier) and prints one line per property
cd "$(dirname "$0")/.."
worst=0
for p in C01 C02 C03 C04 C05 C06 C07 C08 C09 C10 C11 C12 C13 C14 C15 C16 C17 C18 C19 C20; do
  s=$(date +%s)
  out=$(./check $p --tier ${1:-quick} 2>&1); rc=$?
  e=$(date +%s)
  echo "$p rc=$rc $((e-s))s $(echo "$out" | grep -E '^\[C' | head -1 | cut -c1-110)"
  if [ $rc -ne 0 ]; then worst=$rc; echo "$out" | grep -E "VIOLATION|UNDECIDED|CHECKER-ERROR|failed:" | head -5 | cut -c1-300; fi
done
exit $worst
