"""dev helper: solve the pieces of one obligation id pattern and show solver details
usage: python tools/dbg_obl.py <contracts module> <function key> <id substring> [--dump file]"""
import sys, importlib
sys.path.insert(0, '/verif')
from pyvc import verify, smt, spec
importlib.import_module(sys.argv[1])
rep = verify.verify_function(spec.FUNCS[sys.argv[2]])
obls = [o for o in rep.obligations if sys.argv[3] in o.id]
print(len(obls), 'pieces')
res = smt.discharge(obls, 'quick')
for o, r in sorted(zip(obls, res), key=lambda x: -x[1]['time'])[:int(sys.argv[4]) if len(sys.argv) > 4 and sys.argv[4].isdigit() else 6]:
    print(o.id, 'piece', o.meta.get('piece'), 'path', o.meta.get('path'), r['status'], len(o.hyps), 'hyps')
    for x in r['runs']:
        print('    ', x['solver'], x['status'], round(x['time'], 1), (x.get('reason') or '')[:200])
    print('    GOAL', str(o.goal)[:500].replace('\n', ' '))
    print('    detail', o.meta.get('detail'))
if '--dump' in sys.argv:
    o = max(zip(obls, res), key=lambda x: x[1]['time'])[0]
    open(sys.argv[sys.argv.index('--dump') + 1], 'w').write(smt.to_smt2(o))
