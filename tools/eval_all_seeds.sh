#!/bin/sh
# every seeded change against its own check (scratch copy; nothing is written under /verif/evidence); one line per seed
cd "$(dirname "$0")/.."
for id in $(ls seeded | grep "^C" | sort); do
  chk=${id%%-*}
  d=$(tools/apply_seed.sh $id) || { echo "$id: patch does not apply"; continue; }
  out=$(IXAI_REPO=$d ./check $chk 2>&1); rc=$?
  ded=$(echo "$out" | grep "failed:" | grep -vc "bounded:")
  bnd=$(echo "$out" | grep "failed:" | grep -c "bounded:")
  echo "$id rc=$rc deductive_failures=$ded bounded_failures=$bnd $(echo "$out" | grep -E 'UNSUPPORTED|CHECKER-ERROR|UNDECIDED' | head -2 | tr '\n' ' ' | cut -c1-200)"
  rm -rf $d
done
