#!/bin/sh
# every seeded change against its own check (scratch copy; nothing is written under /verif/evidence); one line per seed
cd "$(dirname "$0")/.."
for id in C01 C02 C03 C04 C05 C06 C07 C08 C09 C10 C11 C12 C13 C14 C15 C16 C17 C18 C19 C20; do
  d=$(tools/apply_seed.sh $id) || { echo "$id: patch does not apply"; continue; }
  out=$(IXAI_REPO=$d ./check $id 2>&1); rc=$?
  ded=$(echo "$out" | grep "failed:" | grep -vc "bounded:")
  bnd=$(echo "$out" | grep "failed:" | grep -c "bounded:")
  echo "$id rc=$rc deductive_failures=$ded bounded_failures=$bnd $(echo "$out" | grep -E 'UNSUPPORTED|CHECKER-ERROR|UNDECIDED' | head -2 | tr '\n' ' ' | cut -c1-200)"
  rm -rf $d
done
