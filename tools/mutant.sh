#!/bin/sh
# usage: tools/mutant.sh <file under ixai/...> <python-regex> <replacement> <Cnn> [more checks]
# scratch copy of /repo's ixai/ with one textual mutation; runs the given checks against it; removes the copy
f=$1; pat=$2; rep=$3; shift 3
d=${TMPDIR:-/tmp}/scratch_mut_$$; rm -rf $d; mkdir -p $d; cp -r /repo/ixai $d/ixai
python3 - "$d/$f" "$pat" "$rep" <<'PY' || { rm -rf $d; exit 2; }
import re, sys
p, pat, rep = sys.argv[1:4]
s = open(p).read()
import os
n = len(re.findall(pat, s))
if n != 1 and not os.environ.get('MUT_FIRST'):
    print(f"pattern matches {n} times (set MUT_FIRST=1 to mutate the first match only)"); sys.exit(1)
if n == 0:
    print("pattern does not match"); sys.exit(1)
open(p, 'w').write(re.sub(pat, rep, s, count=1))
PY
for c in "$@"; do
  out=$(IXAI_REPO=$d ./check $c 2>&1); rc=$?
  echo "$out" | grep -E "obligations discharged|failed:|VIOLATION|CHECKER|UNDECIDED|undecided" | cut -c1-260
  echo "$c rc=$rc"
done
rm -rf $d
