#!/usr/bin/env python3
"""(re)generates MANIFEST.json from the property modules under props/ and validates it"""
import json, os, sys, importlib
HERE = os.path.dirname(os.path.dirname(os.path.abspath(__file__)))
sys.path.insert(0, HERE)
props = [json.loads(l) for l in open(os.path.join(HERE, 'properties.jsonl'))]
NA = {}
na_file = os.path.join(HERE, 'not_applicable.json')
if os.path.exists(na_file):
    NA = json.load(open(na_file))
checks, na, served = [], [], []
for p in props:
    pid = p['id']
    path = os.path.join(HERE, 'props', pid + '.py')
    if os.path.exists(path) and pid not in NA:
        P = importlib.import_module('props.' + pid)
        served.append(pid)
        checks.append({
            'property_id': pid,
            'quick_cmd': f'./check {pid} --tier quick',
            'thorough_cmd': f'./check {pid} --tier thorough',
            'evidence_file': f'evidence/{pid}.json',
            'replay_cmd_template': './check --replay {path}',
            'engine': 'pyvc',
            'level_claimed': {'category': P.LEVEL, 'text': P.LEVEL_TEXT, 'design_ref': P.DESIGN_REF},
            'level_note': P.LEVEL_NOTE,
            'technique': P.TECHNIQUE,
        })
    else:
        na.append({'property_id': pid, 'reason': NA.get(pid, 'check not built yet (work in progress; see DESIGN.md section 5)')})
m = {
    'version': 1, 'setup_cmd': './setup.sh',
    'hooks': {'guard': 'IXAI_VERIF',
              'enable': 'none needed: contracts live in the sidecar /verif/contracts and are bound to the real source by name; replay monkeypatches inside its own process only',
              'baseline_off_cmd': 'cd /repo && /venv/bin/python -m pytest -ra -q -p no:cacheprovider --timeout=900 --continue-on-collection-errors',
              'source_commits': [], 'add_only': True},
    'engines': [{'name': 'pyvc', 'path': 'pyvc/', 'serves_properties': served,
                 'kind_free_text': 'own AST->SMT verification-condition generator over the real /repo source with sidecar contracts (pre/post, invariants, loop invariants, frames, ghost state); z3 5.1 + cvc5 1.4 back ends; Lean 4 lemma library; native replay of counterexamples'}],
    'checks': checks, 'not_applicable': na,
    'notes': 'Exit codes of every check: 0 held / 1 violation (VIOLATION line) / 2 undecided / 3 checker error. See DESIGN.md.',
}
json.dump(m, open(os.path.join(HERE, 'MANIFEST.json'), 'w'), indent=1)
try:
    import jsonschema
    jsonschema.validate(m, json.load(open('/root/.vp/MANIFEST.schema.json')))
    print('MANIFEST.json valid;', len(checks), 'checks,', len(na), 'not applicable')
except ImportError:
    print('written (jsonschema not available to validate)')
