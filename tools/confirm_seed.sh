#!/bin/sh
# usage: tools/confirm_seed.sh <Cnn> <worktree>  - confirm a seeded change (tests pass, demo fails with / passes without), store it under seeded/
id=$1; wt=$2
cd $wt || exit 2
git checkout -q -- ixai 2>/dev/null; git apply patch.diff || { echo "patch does not apply"; exit 2; }
t=$(/venv/bin/python -m pytest -q -p no:cacheprovider tests 2>&1 | tail -1)
/venv/bin/python demo.py > /tmp/demo_with.txt 2>&1; with=$?
git apply -R patch.diff
/venv/bin/python demo.py > /tmp/demo_without.txt 2>&1; without=$?
git apply patch.diff
echo "$id: tests with change: $t | demo with change exit=$with | demo without change exit=$without"
d=/verif/seeded/$id; mkdir -p $d
cp patch.diff demo.py $d/; cp NOTE.md $d/NOTE.md 2>/dev/null
echo "$t" > $d/tests_with_change.txt
echo "{\"tests_with_change\": \"$t\", \"demo_exit_with_change\": $with, \"demo_exit_without_change\": $without}" > $d/confirmation.json
