"""dev helper: time VC generation of one function and show the obligation mix
usage: python tools/profile_fn.py <contracts module> <function key> [--solve]"""
import sys
import time
import importlib
from collections import Counter

sys.path.insert(0, '/verif')
from pyvc import verify, smt, spec, symex   # noqa

importlib.import_module(sys.argv[1])
key = sys.argv[2]
t = time.time()
rep = verify.verify_function(spec.FUNCS[key])
print('paths', rep.paths, 'obligations', len(rep.obligations), 'unsupported', rep.unsupported,
      'generation', round(time.time() - t, 1), 's')
print(Counter(o.id.split('/', 1)[1] for o in rep.obligations).most_common(12))
if '--solve' in sys.argv:
    t = time.time()
    res = smt.discharge(rep.obligations, 'quick')
    print('solve wall', round(time.time() - t, 1))
    slow = sorted(zip(rep.obligations, res), key=lambda x: -x[1]['time'])[:8]
    for o, r in slow:
        print(round(r['time'], 1), r['status'], o.id, 'piece', o.meta.get('piece'), 'path', o.meta.get('path'),
              [(x['solver'], x['status'], round(x['time'], 1)) for x in r['runs']])
    bad = [(o, r) for o, r in zip(rep.obligations, res) if (r['status'] != 'unsat') != o.expect_sat or (o.expect_sat and r['status'] == 'unsat')]
    print('not ok:', [(o.id, r['status']) for o, r in bad][:20])
