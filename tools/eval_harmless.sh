#!/bin/sh
# every stored behaviour-preserving change (seeded/harmless/Cnn) against its own check: exit 0 (proved again) or 2 (proof lost,
# undecided) are acceptable, exit 1 would be a false alarm, exit 3 a checker error
cd "$(dirname "$0")/.."
for id in $(ls seeded/harmless | sort); do
  d=$(tools/apply_seed.sh harmless/$id) || { echo "$id: patch does not apply"; continue; }
  out=$(IXAI_REPO=$d ./check $id 2>&1); rc=$?
  echo "$id rc=$rc $(echo "$out" | grep -E '^\[C' | head -1 | cut -c1-90) $(echo "$out" | grep -cE 'UNDECIDED') undecided"
  [ $rc -eq 1 ] || [ $rc -eq 3 ] && echo "$out" | grep -E "VIOLATION|failed:|CHECKER" | head -4 | cut -c1-250
  rm -rf $d
done
