#!/bin/sh
# usage: tools/apply_seed.sh <Cnn>  - scratch copy of /repo's ixai/ with the seeded change applied; prints the scratch root
id=$1; d=${TMPDIR:-/tmp}/scratch_$id
rm -rf $d; mkdir -p $d; cp -r /repo/ixai $d/ixai
(cd $d && patch -p1 -s < /verif/seeded/$id/patch.diff) || exit 2
echo $d
