"""C13 - a river metric used as loss is a pure, smaller-is-better function of its inputs."""
import copy
import inspect
import math
import random
import warnings

ID = 'C13'
LEVEL = 'other'
CONTRACTS = ['contracts.wrappers']
CLOSURE = [{'fn': 'RiverMetricToLossFunction.__init__'}, {'fn': 'MetricLoss.__call__'},
           {'fn': '_get_loss_function_from_river_metric'}]
EXPLANATION = ("With the metric's state abstract and river's contract assumed (revert after update with the same arguments restores the "
               "observable state, get is pure, bigger_is_better constant, a metric handed the wrong kind of prediction raises "
               "AttributeError and stays unchanged): RiverMetricToLossFunction.__call__(y, p) returns sign * get(update(state, y, arg)) "
               "with arg = p.get('output', 0) for single-value metrics and arg = p for dict metrics, and leaves the metric's state exactly "
               "as it was (the revert arguments are the update arguments); sign = -1 iff bigger_is_better; __init__ writes nothing to the "
               "metric; the probe in _get_loss_function_from_river_metric leaves the metric reverted on both branches and detects the input "
               "kind. State unchanged after every call => any interleaved history by any number of holders sees the same state.")
ASSUMPTIONS = ["ASSUMED contract on a dependency (river.metrics): revert(update(s)) = s observationally, get pure - exercised, not proved: bounded "
               "run-time check over every metric class of river.metrics that validate_loss_function accepts",
               "a failed update (AttributeError) leaves the metric unchanged"]
TRUSTED_BASE = ["river Metric contract (assumed)", "abstract metric state"]
LEVEL_TEXT = ("The wrapper and the probe are proved deductively over the real source under an ASSUMED contract of river's Metric; the "
              "contract itself is only exercised by a bounded sweep over all accepted metric classes - hence 'other'.")
LEVEL_NOTE = "river's revert/update/get contract is assumed, exercised by the bounded sweep"
TECHNIQUE = "contract-based deductive verification of the wrapper under an assumed dependency contract (z3/cvc5) + bounded sweep over river.metrics"
DESIGN_REF = "DESIGN.md 5/C13"


def _metric_classes():
    import river.metrics as rm
    from river.metrics.base import Metric
    out = []
    for name in sorted(dir(rm)):
        c = getattr(rm, name)
        if inspect.isclass(c) and issubclass(c, Metric) and not inspect.isabstract(c):
            try:
                c()
                out.append(c)
            except Exception:   # noqa
                continue
    return out


def BOUNDED(tier, seed):
    warnings.simplefilter('ignore')
    from ixai.utils.validators.loss import validate_loss_function
    rng = random.Random(seed)
    fails, evals, distinct, skipped = [], 0, set(), []
    for C in _metric_classes():
        m = C()
        try:
            loss = validate_loss_function(m)
        except Exception as ex:   # noqa  (not accepted: outside the quantifier)
            skipped.append(C.__name__)
            continue
        loss2 = validate_loss_function(m)            # a second holder of the same metric object
        # independent classification: a single-value metric is one whose update accepts a single value as y_pred
        try:
            probe = C()
            probe.update(y_true=0, y_pred=0)
            dict_metric = False
        except AttributeError:
            dict_metric = True
        except Exception:   # noqa
            dict_metric = bool(loss._dict_input_metric)
        if bool(loss._dict_input_metric) != dict_metric:
            evals += 1
            fails.append({'key': 'metric_' + C.__name__, 'summary': f'{C.__name__} accepts a single value as y_pred = {not dict_metric}, but the '
                          f'wrapper passes it {"the whole prediction dict" if loss._dict_input_metric else "only the output entry"}',
                          'observed': {'dict_input_metric': bool(loss._dict_input_metric)}})
            continue
        base = repr(m.get())
        steps = 12 if tier == 'quick' else 200
        ok = True
        for t in range(steps):
            y = rng.choice([0, 1, 2]) if rng.random() < 0.7 else rng.choice([True, False])
            if dict_metric and t % 4 == 3:
                y = 7           # a true label the model has not emitted (not a key of the prediction dict)
            if dict_metric:
                p = {0: rng.random(), 1: rng.random(), 2: rng.random()}
            else:
                p = {'output': rng.choice([0, 1, 2, 0.5])} if rng.random() < 0.9 else {'other': 1.0}
            holder = loss if t % 2 == 0 else loss2
            try:
                got = holder(y, dict(p))
            except Exception as ex:   # noqa
                continue            # this metric does not take such a pair: outside the quantifier
            evals += 1
            distinct.add((C.__name__, t))
            fresh = C()
            arg = p if dict_metric else p.get('output', 0)
            try:
                fresh.update(y_true=y, y_pred=arg)
                exp = fresh.get() * (-1.0 if getattr(fresh, 'bigger_is_better', False) else 1.0)
            except Exception:   # noqa
                continue
            same = (got == exp) or (isinstance(got, float) and isinstance(exp, float) and math.isnan(got) and math.isnan(exp))
            if not same or repr(m.get()) != base:
                fails.append({'key': 'metric_' + C.__name__, 'summary': f'{C.__name__}: call {t} with ({y!r}, {p!r}) returned {got!r}, a fresh metric '
                              f'reports {exp!r}; metric value afterwards {m.get()!r} (was {base})', 'observed': {'got': repr(got), 'expected': repr(exp)}})
                ok = False
                break
    return [{'name': 'river_metrics_sweep', 'evaluations': evals, 'distinct_nontrivial': len(distinct),
             'rule': 'every concrete class of river.metrics that validate_loss_function accepts; two holders of one metric object; interleaved '
                     'call histories (12 quick / 200 thorough pairs); each value compared with a fresh metric after that single pair (negated for '
                     'bigger-is-better), and the metric\'s own reported value must stay what it was', 'bound': 'call histories of <= 200 pairs',
             'not_accepted': skipped, 'failures': fails}]


def REPLAY(w):
    b = BOUNDED('quick', 0)[0]
    hit = [f for f in b['failures'] if f['key'] == w.get('key')]
    return {'confirmed': bool(hit), 'observed': [f['summary'] for f in hit[:2]]}
