"""C20 - float results stay close to exact arithmetic on long, ill-conditioned streams."""
import math
import random
from fractions import Fraction

ID = 'C20'
LEVEL = 'other'
CONTRACTS = ['contracts.trackers', 'contracts.trackers_float', 'contracts.explainer']
CLOSURE = [
    {'fn': 'WelfordTracker.update#float', 'opts': {'float_mode': True}},
    {'fn': 'Tracker.var#float', 'opts': {'float_mode': True}},
    {'fn': 'ExponentialSmoothingTracker.update#float', 'opts': {'float_mode': True}},
    # the explainers feed the trackers the plain differences of the loss values - no thresholding, rounding or clipping in between
    {'fn': 'IncrementalPFI.explain_one', 'clauses': ['pfi_val', 'pfi_dom', 'pfi_importance'], 'safety': False},
    {'fn': 'IncrementalSage.explain_one', 'clauses': ['chain', 'contrib_dom', 'importance_step'], 'safety': False},
]
# operation-level refinement clauses: stricter than the statement (another equally stable formulation would lose them without
# breaking the error bounds) - a failure counts as a violation only together with a failing input from the numeric stand-in
STRICTER_THAN_STATEMENT = ['*#float/*']
EXPLANATION = ("Operation-level refinement: with +,-,*,/ uninterpreted (IEEE operations, commutativity only) the shipped "
               "updates are proved to be exactly the Welford/West recurrence mean' = mean (+) (v (-) mean) (/) N', "
               "M2' = M2 (+) (v (-) mean) (*) (v (-) mean'), var = M2 (/) max(N,1), and the convex-combination smoothing step "
               "(or its incremental twin) - the recurrences for which the error bounds of the statement are cited theorems. "
               "Explainers (over the reals): each per-observation contribution handed to the trackers is exactly the difference of the "
               "loss values (PFI: mean imputed loss - original loss; SAGE: consecutive chain losses), so nothing between the loss and the "
               "tracker thresholds, rounds or clips. "
               "The numeric bounds themselves are only a bounded run-time contract against exact rational arithmetic over "
               "a deterministic adversarial family of streams (labelled bounded, not proved).")
ASSUMPTIONS = ["cited theorems: Chan/Golub/LeVeque 1983, Higham 2002 sec. 1.9 (Welford update is backward stable for the mean; "
               "variance error ~ n*eps*kappa), geometric-series bound for exponential smoothing",
               "IEEE-754 double semantics of CPython floats",
               "the error bounds of the statement are NOT derived deductively (outside the reach of SMT here)"]
TRUSTED_BASE = ["uninterpreted-operation encoding of float arithmetic (pyvc float mode)"]
LEVEL_TEXT = ("Refinement obligations (deductive, all iterations): the update code is operation for operation the numerically stable "
              "reference recurrence; a real-equal but unstable rewrite (E[x^2]-E[x]^2) fails a named obligation. The numeric error "
              "bounds are checked only by a bounded run-time oracle against exact rationals (n <= 10^4 quick, 10^6 thorough). "
              "'other' because the statement's bounds are cited, not proved.")
LEVEL_NOTE = "cited rounding-error theorems; IEEE semantics of CPython floats; bounded numeric oracle is a stand-in"
TECHNIQUE = "contract-based refinement to reference recurrences over uninterpreted float operations (z3) + bounded exact-rational oracle"
DESIGN_REF = "DESIGN.md 5/C20"

EPS = 2.0 ** -52


def _family(n, rng):
    """deterministic adversarial streams of length n"""
    out = {}
    for mag in (1e-8, 1.0, 1e8):
        base = [mag * (((i * 7919) % 1000) / 1000.0 - 0.5) for i in range(n)]
        out[f'sorted@{mag}'] = sorted(base)
        out[f'alternating@{mag}'] = [mag * (1 if i % 2 else -1) * (1 + (i % 7) / 7.0) for i in range(n)]
        out[f'const_then_jump@{mag}'] = [mag] * (n // 2) + [mag * 1000.0] * (n - n // 2)
    for off in (1e6, 1e9):
        out[f'offset@{off}'] = [off + (((i * 104729) % 2001) / 1000.0 - 1.0) for i in range(n)]
    out['random'] = [rng.uniform(-1e3, 1e3) for _ in range(n)]
    return out


def _check_stream(name, s, fails):
    from ixai.utils.tracker.welford import WelfordTracker
    from ixai.utils.tracker.exponential_smoothing import ExponentialSmoothingTracker
    n = len(s)
    w = WelfordTracker()
    es = {a: ExponentialSmoothingTracker(a) for a in (0.001, 0.1, 1.0)}
    S1 = Fraction(0)
    S2 = Fraction(0)
    import decimal
    dctx = decimal.Context(prec=80)
    exact_es = {a: decimal.Decimal(0) for a in es}
    dec_a = {a: decimal.Decimal(a) for a in es}
    for v in s:
        w.update(v)
        fv = Fraction(v)
        S1 += fv
        S2 += fv * fv
        for a, t in es.items():
            t.update(v)
            dv = decimal.Decimal(v)
            exact_es[a] = dctx.add(dctx.multiply(dctx.subtract(1, dec_a[a]), exact_es[a]), dctx.multiply(dec_a[a], dv))
    vmax = max(abs(x) for x in s)
    mean = S1 / n
    var = S2 / n - mean * mean
    C = 8.0
    ok = True
    obs = {}
    err_mean = abs(Fraction(w.mean) - mean)
    obs['mean_err'] = float(err_mean)
    obs['mean_bound'] = C * n * EPS * vmax
    if not (math.isfinite(w.mean) and err_mean <= Fraction(C * n * EPS * vmax)):
        ok = False
    if var > 0:
        kappa = math.sqrt(1 + float(mean * mean / var))
        rel = abs(Fraction(w.var) - var) / var
        obs['var_rel_err'] = float(rel)
        obs['var_bound'] = C * n * EPS * kappa
        if not (math.isfinite(w.var) and rel <= Fraction(C * n * EPS * kappa)):
            ok = False
    try:
        if not (math.isfinite(w.std) and w.var >= 0):
            ok = False
    except TypeError:
        ok = False
        obs['std'] = repr(w.std)
    for a, t in es.items():
        e = abs(Fraction(t.get()) - Fraction(exact_es[a]))
        obs[f'es_err@{a}'] = float(e)
        if not (math.isfinite(t.get()) and e <= Fraction(C * EPS * vmax / a)):
            ok = False
    if not ok:
        fails.append({'key': name.split('@')[0], 'summary': f'float result too far from exact arithmetic on stream {name} (n={n})',
                      'stream_family': name, 'n': n, 'observed': obs})
    return obs


def _explainer_runs(tier, seed):
    """explainer runs driven by adversarial loss values: the float importance values against exact rational arithmetic on the
    SAME recorded loss values (contributions rebuilt from the recorded loss / imputer calls, exact tracker recurrences)"""
    import warnings
    import numpy as np
    warnings.simplefilter('ignore')
    from ixai.explainer import IncrementalPFI, IncrementalSage
    from ixai.imputer import MarginalImputer
    from ixai.storage import GeometricReservoirStorage, UniformReservoirStorage
    eps = 2.0 ** -52
    names = ['a', 'b', 'c']
    fails, evals, distinct, sample = [], 0, set(), None
    n_obs = 120 if tier == 'quick' else 1500
    losses = {
        'unit': lambda y, p: (y - p['output']) ** 2,
        'offset1e6': lambda y, p: 1e6 + (y - p['output']) ** 2,
        'offset1e9': lambda y, p: 1e9 + (y - p['output']) ** 2,
        'scale1e-8': lambda y, p: 1e-8 * (y - p['output']) ** 2,
        'scale1e8': lambda y, p: 1e8 * (y - p['output']) ** 2,
    }

    def model(x):
        return {'output': 2.0 * x['a'] - 1.0 * x['b'] + 0.0 * x['c']}
    for kind in ('pfi', 'sage'):
        for dynamic, alpha, n_inner in ((False, 0.001, 2), (True, 0.05, 2), (True, 0.001, 1), (False, 0.001, 1), (True, 0.05, 1)):
            for lname, lf in losses.items():
                if n_inner == 1 and lname not in ('offset1e9', 'offset1e6'):
                    continue        # one inner sample: every contribution is a difference of two nearby floats, i.e. EXACT - tight bound
                log = []

                def loss(y, p, lf=lf, log=log):
                    v = float(lf(y, p))
                    log.append(('loss', v))
                    return v
                st = GeometricReservoirStorage(size=20, store_targets=False) if dynamic else UniformReservoirStorage(size=20, store_targets=False)

                class Rec(MarginalImputer):
                    def impute(self, feature_subset, x_i, n_samples=1):
                        log.append(('impute', frozenset(feature_subset)))
                        return super().impute(feature_subset, x_i, n_samples)
                E = IncrementalPFI if kind == 'pfi' else IncrementalSage
                ex = E(model, loss, list(names), storage=st, imputer=Rec(model, 'joint', st), smoothing_alpha=alpha,
                       n_inner_samples=n_inner, dynamic_setting=dynamic)
                rng = random.Random(seed)
                random.seed(seed)
                np.random.seed(seed)
                exact = {f: Fraction(0) for f in names}
                cnt = 0
                maxloss = 0.0
                maxc = 0.0
                a = Fraction(alpha)
                bad = None
                for t in range(n_obs):
                    x = {'a': rng.gauss(0, 1), 'b': rng.gauss(0, 1), 'c': rng.gauss(0, 1)}
                    y = 2.0 * x['a'] - x['b'] + rng.gauss(0, 0.1)
                    del log[:]
                    got = ex.explain_one(x, y)
                    if not log:
                        continue
                    # rebuild this observation's contributions from the recorded calls, exactly
                    contrib = {}
                    vals = [v for k, v in log if k == 'loss']
                    maxloss = max([maxloss] + [abs(v) for v in vals])
                    if kind == 'pfi':
                        orig = Fraction(log[0][1])
                        cur, acc = None, []
                        for k, v in log[1:] + [('impute', None)]:
                            if k == 'impute':
                                if cur is not None and acc:
                                    contrib[cur] = sum(acc) / len(acc) - orig
                                cur, acc = (next(iter(v)) if v else None), []
                            else:
                                acc.append(Fraction(v))
                    else:
                        prev = Fraction(log[1][1])          # log[0]: model loss, log[1]: marginal loss
                        remaining = set(names)
                        i = 2
                        while i + 1 < len(log) + 1 and i < len(log):
                            sub = log[i][1]
                            f = next(iter(remaining - set(sub)))
                            remaining = set(sub)
                            lv = Fraction(log[i + 1][1])
                            contrib[f] = prev - lv
                            prev = lv
                            i += 2
                    if set(contrib) != set(names):
                        bad = f'could not rebuild the contributions from the recorded calls at t={t}'
                        break
                    cnt += 1
                    for f in names:
                        exact[f] = exact[f] + (contrib[f] - exact[f]) / cnt if not dynamic else (1 - a) * exact[f] + a * contrib[f]
                    # forming a contribution from two loss values costs about eps * max|loss| (unavoidable, "the same inputs" are
                    # the loss values); the tracker then adds eps * max|contribution| / alpha (smoothing) or n * eps * max|contribution|
                    maxc = max([maxc] + [abs(float(v)) for v in contrib.values()])
                    bound = 16 * (eps * maxloss + (eps * maxc / alpha if dynamic else cnt * eps * maxc))
                    if n_inner == 1:
                        # no mean over inner samples: the contributions l - l' of nearby floats are exact (Sterbenz), so the only
                        # rounding is the tracker's own
                        bound = 16 * (eps * maxc / alpha if dynamic else cnt * eps * maxc) + 4 * eps * maxc
                    for f in names:
                        g = float(got[f])
                        if not math.isfinite(g) or abs(Fraction(g) - exact[f]) > Fraction(bound):
                            bad = (f'{kind} dynamic={dynamic} alpha={alpha} n_inner={n_inner} loss={lname}: importance[{f}] = {g!r} after {t + 1} observations, exact arithmetic on the '
                                   f'same loss values gives {float(exact[f])!r} (bound {bound:.3g})')
                            break
                    if bad:
                        break
                evals += 1
                distinct.add((kind, dynamic, alpha, n_inner, lname))
                if bad:
                    fails.append({'key': 'explainer_float', 'summary': bad, 'observed': bad})
                elif lname == 'offset1e9' and kind == 'pfi':
                    sample = {'explainer': kind, 'dynamic': dynamic, 'loss': lname, 'observations': n_obs,
                              'importance': {f: float(got[f]) for f in names}, 'exact': {f: float(exact[f]) for f in names}}
    return {'name': 'explainer_float_vs_exact', 'evaluations': evals, 'distinct_nontrivial': len(distinct),
            'rule': 'IncrementalPFI / IncrementalSage (static: running mean, dynamic: smoothing 0.05) x losses with offsets 1e6, 1e9 and '
                    'scales 1e-8, 1, 1e8; the contributions are rebuilt exactly (Fractions) from the recorded loss and imputer calls and fed to '
                    'the exact tracker recurrences; bound 16 (eps max|loss| + eps max|contribution| / alpha) (smoothing) resp. 16 (eps max|loss| + n eps max|contribution|) (running mean); distinct = '
                    '(explainer, mode, loss family)', 'bound': f'{n_obs} observations, 3 features', 'sample': sample, 'failures': fails}


def BOUNDED(tier, seed):
    rng = random.Random(seed)
    fails = []
    evals = 0
    sizes = [10, 1000, 10000] if tier == 'quick' else [10, 1000, 10000, 1000000]
    sample = None
    names = set()
    for n in sizes:
        fam = _family(n, rng)
        if n == 1000000:
            fam = {k: v for k, v in fam.items() if k in ('offset@1000000000.0', 'sorted@100000000.0', 'alternating@1.0')}
        for name, s in fam.items():
            obs = _check_stream(name, s, fails)
            evals += 1
            names.add((name, n))
            if name.startswith('offset@1e+09') or name.startswith('offset@1000000000'):
                sample = {'stream': name, 'n': n, **obs}
    return [{'name': 'float_vs_exact', 'evaluations': evals, 'distinct_nontrivial': len(names),
             'rule': 'deterministic adversarial family (sorted, alternating, constant-then-jump at magnitudes 1e-8,1,1e8; offsets '
                     '1e6 and 1e9 times the spread; seeded uniform) x stream lengths; exact oracle = fractions.Fraction for mean/variance, 80-digit decimal arithmetic for the smoothing recursion; '
                     'bounds: |mean err| <= 8 n eps max|v|, var rel err <= 8 n eps kappa, |es err| <= 8 eps max|v| / alpha; distinct = (family, n)',
             'bound': f'n <= {max(sizes)}', 'sample': sample, 'failures': fails},
            _explainer_runs(tier, seed)]
