"""C12 - MultiValueTracker: independent per-key statistics, zero-fill, safe normalising."""
import itertools
import math
import random
from fractions import Fraction

from props._util import same_num, same_dict

ID = 'C12'
LEVEL = 'proof'
CONTRACTS = ['contracts.trackers', 'contracts.multi_value']
CLOSURE = [
    {'fn': 'MultiValueTracker.__init__'}, {'fn': 'MultiValueTracker.update'},
    {'fn': 'MultiValueTracker.__call__'}, {'fn': 'MultiValueTracker.get'},
    {'fn': 'MultiValueTracker.get_normalized'}, {'fn': 'MultiValueTracker.get_normalized#kinds'},
    # the per-key step is the base tracker's update: both implementations against the interface contract
    {'fn': 'WelfordTracker.update', 'clauses': ['count', 'lin', 'kind_const', 'inv:*', 'frame:*', 'returns_self']},
    {'fn': 'ExponentialSmoothingTracker.update', 'clauses': ['count', 'lin', 'kind_const', 'inv:*', 'frame:*', 'returns_self']},
]
LEAN = ['msum_scale', 'msum_congr']
EXPLANATION = ("update: loop invariants over the set of visited keys give the per-key specification (key in the update: step of "
               "its tracker or of a fresh base copy; tracked key missing from the update: step with 0; no other key touched; keys "
               "never dropped; N counts calls; base never changes). get: the dict of tracked values. get_normalized: raw for <= 1 key; "
               "ratios and sum one for a non-zero sum; all zeros and finite for a zero sum - for every numeric kind (py / NumPy: "
               "NumPy division by zero does not raise).")
ASSUMPTIONS = ["A1: floats are treated as reals", "A3: no external writes to private fields between calls",
               "numeric kinds of tracked values are over-approximated as arbitrary (MultiValueTracker.get#kinds)",
               "A-fin: program containers are finite (msum lemmas)"]
TRUSTED_BASE = ["lean 4.33 + Mathlib (msum_scale, msum_congr)", "numeric-kind model of division (py raises ZeroDivisionError, NumPy yields inf/nan)"]
LEVEL_TEXT = ("Deductive proof of the data-structure contract of MultiValueTracker over the real source: every obligation (loop "
              "invariants established/preserved, postconditions, class invariant, frame, absence of exceptions) discharged by "
              "z3/cvc5 on every run, per-key steps through the Tracker.update contract proved for both base trackers.")
LEVEL_NOTE = ("floats as reals; numeric-kind model of NumPy vs Python division is a trusted library contract (probed natively by the "
              "bounded stand-in); SMT solvers, pyvc encoding, Lean lemma mirror")
TECHNIQUE = "contract-based deductive verification: AST->SMT VCs with loop invariants over the real source (z3/cvc5)"
DESIGN_REF = "DESIGN.md 5/C12"


# ---- bounded stand-in: reference model with exact rationals + numeric-kind sweep for the normalised view -------
def _ref_step(kind, alpha, n, t, v):
    if kind == 'welford':
        return t + (v - t) / (n + 1)
    return (1 - alpha) * t + alpha * v


def _mk(kind, alpha):
    from ixai.utils.tracker import MultiValueTracker, WelfordTracker, ExponentialSmoothingTracker
    return MultiValueTracker(WelfordTracker() if kind == 'welford' else ExponentialSmoothingTracker(alpha))


def _history_check(kind, alpha, updates):
    m = _mk(kind, alpha)
    ref = {}
    for i, upd in enumerate(updates):
        before = dict(upd)
        m.update(upd)
        if upd != before:
            return f"update modified its argument at step {i}"
        for k in list(ref):
            n, t = ref[k]
            ref[k] = (n + 1, _ref_step(kind, alpha, n, t, upd.get(k, 0)))
        for k in upd:
            if k not in ref:
                ref[k] = (1, _ref_step(kind, alpha, 0, Fraction(0), upd[k]))
        got = m.get()
        if set(got) != set(ref) or any(not same_num(got[k], ref[k][1]) for k in ref) or m.N != i + 1:
            return f"after step {i}: got {got}, N={m.N}; expected { {k: v[1] for k, v in ref.items()} }, N={i + 1}"
        if any(m.tracked_value[k].N != ref[k][0] for k in ref):
            return f"after step {i}: per-key counts {[m.tracked_value[k].N for k in ref]} differ from {[ref[k][0] for k in ref]}"
        norm = m.get_normalized()
        s = sum(ref[k][1] for k in ref)
        if len(got) <= 1:
            ok = same_dict(norm, {k: ref[k][1] for k in ref})
        elif s != 0:
            ok = set(norm) == set(ref) and all(same_num(norm[k], ref[k][1] / s) for k in ref) and same_num(sum(norm.values()), 1)
        else:
            ok = set(norm) == set(ref) and all(norm[k] == 0 for k in ref)
        if not ok:
            return f"after step {i}: normalised view {norm} of {got}"
    return None


def _kind_sweep():
    """zero-sum and non-zero-sum normalisation for python ints, floats and NumPy scalars"""
    import numpy as np
    import warnings
    from ixai.utils.tracker import MultiValueTracker, ExponentialSmoothingTracker
    out = []
    n = 0
    makers = {'int': int, 'float': float, 'np.float64': np.float64, 'np.int64': np.int64, 'np.float32': np.float32}
    for (na, fa), (nb, fb) in itertools.product(makers.items(), repeat=2):
        for a, b in ((1, -1), (0, 0), (2, -2), (1, 3), (-1, 2)):
            m = MultiValueTracker(ExponentialSmoothingTracker(1))
            m.update({'a': fa(a), 'b': fb(b)})
            n += 1
            with warnings.catch_warnings():
                warnings.simplefilter('ignore')
                try:
                    norm = m.get_normalized()
                except Exception as ex:   # noqa
                    out.append((f"{na}({a}),{nb}({b})", f"raised {ex!r}"))
                    continue
            vals = [float(v) for v in norm.values()]
            if a + b == 0:
                ok = all(v == 0.0 for v in vals)
            else:
                ok = all(math.isfinite(v) for v in vals) and abs(sum(vals) - 1) < 1e-6
            if not ok:
                out.append((f"{na}({a}),{nb}({b})", f"normalised {norm}"))
    return n, out


def BOUNDED(tier, seed):
    rng = random.Random(seed)
    keys = ['a', 'b', 'c', 1]
    vals = [Fraction(0), Fraction(1), Fraction(-1), Fraction(1, 2)]
    fails, evals, distinct = [], 0, set()
    histories = []
    small = [dict(zip(ks, vs)) for r in range(0, 3) for ks in itertools.combinations(keys[:3], r)
             for vs in itertools.product(vals[:3], repeat=r)]
    for h in itertools.product(small, repeat=2):
        histories.append(list(h))
    for _ in range(40 if tier == 'quick' else 600):
        n = rng.randint(3, 8)
        histories.append([{k: Fraction(rng.randint(-4, 4), rng.randint(1, 3)) for k in rng.sample(keys, rng.randint(0, 4))}
                          for _ in range(n)])
    # the same statement at very small and very large magnitudes (a non-zero sum, however tiny, normalises to one)
    for h in list(histories[-12:]):
        for scale in (Fraction(1, 10 ** 9), Fraction(1, 10 ** 13), Fraction(10 ** 9)):
            histories.append([{k: v * scale for k, v in u.items()} for u in h])
    for h in histories:
        for kind, alpha in (('welford', None), ('es', Fraction(1, 3)), ('es', Fraction(1))):
            evals += 1
            distinct.add((kind, str(alpha), str(h)))
            err = _history_check(kind, alpha, [dict(u) for u in h])
            if err:
                fails.append({'key': 'history', 'summary': err, 'kind': kind, 'alpha': str(alpha),
                              'updates': [{str(k): str(v) for k, v in u.items()} for u in h], 'observed': err})
                break
    n2, bad = _kind_sweep()
    kf = [{'key': 'zero_sum_numpy' if 'np.' in w else 'normalise_kinds', 'summary': f'get_normalized on values {w}: {o}',
           'values': w, 'observed': o} for w, o in bad]
    return [{'name': 'reference_model_exact', 'evaluations': evals, 'distinct_nontrivial': len(distinct),
             'rule': 'all 2-step histories over dicts with <= 2 of 3 keys and 3 values, plus seeded random histories (3..8 steps, 4 keys '
                     'incl. an int key), each for Welford, ES(1/3), ES(1); exact Fractions through the real class against an '
                     'independent per-key reference; 12 of the random histories also scaled by 1e-9, 1e-13, 1e9; distinct = distinct (tracker, history)',
             'bound': 'histories of <= 8 updates, <= 4 keys', 'failures': fails},
            {'name': 'normalise_numeric_kinds', 'evaluations': n2, 'distinct_nontrivial': n2,
             'rule': 'two keys x {int,float,np.float64,np.int64,np.float32}^2 x 5 value pairs (3 with zero sum); zero sum must give all 0.0, '
                     'otherwise finite and summing to one',
             'bound': '2 keys', 'failures': kf}]


def SEARCH(ob, seed):
    """bounded native search for a failing input of the clause that failed (zero-sum clause: numeric kinds)"""
    if ob.meta.get('clause') != 'zero_sum':
        return None
    n, bad = _kind_sweep()
    if bad:
        w, o = bad[0]
        return {'witness': {'values': w, 'how': "MultiValueTracker(ExponentialSmoothingTracker(1)).update({'a': .., 'b': ..}).get_normalized()"},
                'observed': {'confirmed': True, 'normalised': o}}
    return None


def REPLAY(w):
    n, bad = _kind_sweep()
    hit = [o for x, o in bad if x == w.get('values')]
    if 'updates' in w:
        upd = [{(int(k) if k.lstrip('-').isdigit() else k): Fraction(v) for k, v in u.items()} for u in w['updates']]
        err = _history_check(w['kind'], None if w['alpha'] == 'None' else Fraction(w['alpha']), upd)
        return {'confirmed': err is not None, 'observed': err}
    return {'confirmed': bool(hit), 'observed': hit[:1]}
