"""C19 - TreeStorage reservoirs track current leaves; TreeImputer uses observed values."""
import copy
import random
import warnings

ID = 'C19'
LEVEL = 'other'
CONTRACTS = ['contracts.storage', 'contracts.tree']
CLOSURE = [
    {'fn': 'TreeStorage.__len__'},
    {'fn': 'TreeStorage.update'},
    {'fn': 'TreeStorage._update_data_reservoirs'},
    {'fn': 'TreeStorage._delete_outdated_reservoirs'},
    {'fn': 'TreeStorage.__call__'},
    {'fn': 'GeometricReservoirStorage.update', 'clauses': ['p_one_stores', 'inv:count', 'inv:xs_observed', 'p_const']},
    {'fn': 'GeometricReservoirStorage.__init__', 'clauses': ['prob', 'cfg', 'empty']},
    {'fn': 'TreeImputer.impute'},
    {'fn': 'TreeImputerObj._sample_from_storages'},
]
EXPLANATION = ("Under ASSUMED contracts of river's Hoeffding trees and of the two path functions of tree_storage.py (outside the engine's "
               "subset: recursive generator / recursion over river node objects): get_path_through_tree(root, x) is the id of a leaf of the "
               "current tree and occurs in get_all_tree_paths(root). Proved on the ixai side: __len__ = number of updates; "
               "TreeStorage.update (loop over the features of x, invariant over the features done): one more update counted, and for every "
               "stored feature of x the complete observation is in the reservoir of the leaf it is routed to in that feature's tree as it "
               "is after learn_one (later iterations touch neither other features' trees nor their reservoirs), x unchanged; "
               "_update_data_reservoirs inserts the COMPLETE observation x into the reservoir keyed by the routed leaf id, a new reservoir is "
               "GeometricReservoirStorage(size = leaf_reservoir_length, p = 1.0) (so by C07 it never exceeds its size and holds only observed "
               "points, by C09's p = 1 clause it contains the newest one); after _delete_outdated_reservoirs the keys are a subset of the "
               "current leaf ids. TreeImputer.impute: only requested features differ from x_i, n_samples predictions, x_i and the storage "
               "unchanged; with use_storage each value is the feature's value in a point of the routed leaf's reservoir (index from "
               "randint(0, len-1), full range), falling back to the tree's own sample only on KeyError. NOT decidable by contract here: "
               "'reservoirs only for leaves of the current tree after EVERY update' (pruning happens only when the routed leaf id is new; "
               "whether river restructures a tree while the instance still routes to an existing id is a fact about river internals) - "
               "bounded only: run-time postcondition on drift streams.")
ASSUMPTIONS = ["ASSUMED: river Hoeffding trees: learn_one may restructure the tree arbitrarily; predict_one / predict_proba_one do not change it; "
               "predict_proba_one keys are classes seen by learn_one; deterministic given a seed",
               "ASSUMED: get_path_through_tree(root, x) is an element of get_all_tree_paths(root) = exactly the current leaf ids",
               "the after-every-update freshness of reservoirs is only a bounded run-time check"]
TRUSTED_BASE = ["river tree contract (assumed)", "path functions of tree_storage.py (assumed + run-time checked)"]
LEVEL_TEXT = ("ixai-side obligations proved deductively under assumed contracts of river and of the two path functions; one clause of the "
              "statement and everything inside river only bounded (run-time postconditions on drift streams) - hence 'other'.")
LEVEL_NOTE = "river contracts and path functions assumed; stale-reservoir clause bounded only"
TECHNIQUE = "contract-based deductive verification under assumed dependency contracts (z3/cvc5) + bounded run-time postconditions on drift streams"
DESIGN_REF = "DESIGN.md 5/C19"


def _stream(rng, n, drift_at):
    out = []
    for t in range(n):
        a = rng.random()
        b = rng.choice([1.0, 2.0, 3.0])          # categorical features are numerically coded (river's leaf models need numbers)
        c = rng.random()
        if t < drift_at:
            x = {'a': a, 'b': b, 'c': c, 'd': (a > 0.5) * 1.0 + 0.01 * c}
        else:
            x = {'a': a, 'b': b, 'c': c, 'd': (c > 0.3) * 2.0 - a}
        out.append(x)
    return out


def BOUNDED(tier, seed):
    warnings.simplefilter('ignore')
    from ixai.storage import TreeStorage
    from ixai.storage.tree_storage import get_all_tree_paths
    from ixai.imputer import TreeImputer
    rng = random.Random(seed)
    random.seed(seed)
    import numpy as np
    np.random.seed(seed)
    fails, evals, distinct = [], 0, set()
    n = 400 if tier == 'quick' else 3000
    def check_imputer(st, max_depth, when):
        nonlocal evals
        def model(z):
            return {'output': sum(float(v) for v in z.values())}
        for use_storage in (True, False):
            imp = TreeImputer(model, st, use_storage=use_storage)
            for sub in (['a'], ['b'], ['a', 'b', 'd'], [], ['c', 'd']):
                x_i = dict(_stream(rng, 1, 0)[0])
                xb = copy.deepcopy(x_i)
                subb = list(sub)
                seen_inputs = []
                imp.model_function = lambda z, _s=seen_inputs: (_s.append(dict(z)), model(z))[1]
                ns = 3
                evals += 1
                distinct.add((max_depth, use_storage, tuple(sub), when))
                try:
                    out = imp.impute(sub, x_i, n_samples=ns)
                except Exception as ex:   # noqa  (valid input: the statement says n_samples predictions are returned)
                    fails.append({'key': 'tree_imputer', 'summary': f'TreeImputer(use_storage={use_storage}) {when}, subset {sub}: impute raised {ex!r}',
                                  'observed': repr(ex)})
                    continue
                err = None
                if x_i != xb or sub != subb or len(out) != ns or len(seen_inputs) != ns:
                    err = f'instance/subset modified or {len(out)} predictions for n_samples={ns}'
                else:
                    for z in seen_inputs:
                        if any(z[k] != x_i[k] for k in x_i if k not in sub) or set(z) != set(x_i):
                            err = f'model input {z} differs from the instance outside the subset {sub}'
                            break
                        for k in sub:
                            if use_storage:
                                root = st._storage_x[k]._root
                                leaf = st.get_path_through_tree(root, {a: b for a, b in x_i.items()})
                                res = st.data_reservoirs[k].get(leaf)
                                if res is not None and not any(k in p and p[k] == z[k] for p in res.get_data()[0]):
                                    err = f'imputed {k}={z[k]!r} is not the value of {k} in any point of the routed leaf reservoir'
                                    break
                            if k == 'b' and z[k] not in (1.0, 2.0, 3.0):
                                err = f'categorical value {z[k]!r} was never observed'
                                break
                        if err:
                            break
                if err:
                    fails.append({'key': 'tree_imputer', 'summary': f'TreeImputer(use_storage={use_storage}) {when}, subset {sub}: {err}', 'observed': err})

    for max_depth, grace, leaf_len in ((3, 20, 3), (5, 50, 5), (4, 20, 1)):
        st = TreeStorage(cat_feature_names=['b'], num_feature_names=['a', 'c', 'd'], max_depth=max_depth, grace_period=grace,
                         leaf_reservoir_length=leaf_len, seed=seed)
        seen = []
        stale = 0
        for t, x in enumerate(_stream(rng, n, n // 2)):
            xb = copy.deepcopy(x)
            st.update(x)
            seen.append(x)
            evals += 1
            distinct.add((max_depth, t))
            err = None
            if x != xb:
                err = 'update modified the observation'
            elif len(st) != t + 1:
                err = f'len(storage) = {len(st)} after {t + 1} updates'
            else:
                for f in st.feature_names:
                    root = st._storage_x[f]._root
                    leaves = set(get_all_tree_paths(root))
                    x_i = {k: v for k, v in x.items() if k != f}
                    leaf = st.get_path_through_tree(root, x_i)
                    res = st.data_reservoirs[f]
                    stale += len(set(res) - leaves)
                    if leaf not in res:
                        err = f'feature {f}: no reservoir for the leaf the newest observation is routed to'
                        break
                    pts = res[leaf].get_data()[0]
                    if not any(p is x for p in pts):
                        err = f'feature {f}: the newest observation is not in the reservoir of its leaf'
                        break
                    for lid, r in res.items():
                        pts = r.get_data()[0]
                        if len(pts) > leaf_len or any(not any(p is s for s in seen) or set(p) != set(x) for p in pts):
                            err = f'feature {f}: reservoir {lid[:30]}.. holds {len(pts)} points (limit {leaf_len}) or unobserved / incomplete points'
                            break
                    if err:
                        break
            if not err and (t < 6 or t % 37 == 0 or n // 2 <= t < n // 2 + 4):
                # the imputer on young trees / right after the drift: leaves with a single stored point, fresh splits
                check_imputer(st, max_depth, f'after {t + 1} updates')
            if err:
                fails.append({'key': 'tree_storage', 'summary': f'TreeStorage(max_depth={max_depth}, grace={grace}, leaf_len={leaf_len}) after '
                              f'{t + 1} updates: {err}', 'observed': err})
                break
        if stale:
            fails.append({'key': 'stale_reservoir', 'summary': f'TreeStorage(max_depth={max_depth}): {stale} reservoir(s) for leaves that are no '
                          f'longer in the current tree were observed over {n} updates', 'observed': stale})
        check_imputer(st, max_depth, 'after the stream')
    return [{'name': 'tree_runtime_postconditions', 'evaluations': evals, 'distinct_nontrivial': len(distinct),
             'rule': 'mixed categorical/numerical stream with an abrupt concept drift half-way; after every update: length, reservoir keys vs current '
                     'leaves (stale count), size limit, completeness and provenance of stored points (by identity), newest point in its leaf; '
                     'TreeImputer in both modes on 5 subsets: frame, count, provenance of imputed values', 'bound': f'{n} updates per configuration',
             'failures': fails}]


def REPLAY(w):
    b = BOUNDED('quick', 0)[0]
    hit = [f for f in b['failures'] if f['key'] == w.get('key')]
    return {'confirmed': bool(hit), 'observed': [f['summary'] for f in hit[:2]]}
