"""C07 - storages hold only observed data, within capacity, with targets aligned."""
import itertools
import random

ID = 'C07'
LEVEL = 'proof'
CONTRACTS = ['contracts.storage']
_INV = ['inv:*', 'frame:*', 'empty', 'cfg', 'newest_last', 'args_unchanged', 'len', 'view', 'returns_self']
CLOSURE = [
    {'fn': 'BatchStorage.__init__', 'clauses': _INV}, {'fn': 'BatchStorage.update', 'clauses': _INV},
    {'fn': 'IntervalStorage.__init__', 'clauses': _INV}, {'fn': 'IntervalStorage.update', 'clauses': _INV},
    {'fn': 'SequenceStorage.__init__', 'clauses': _INV},
    {'fn': 'GeometricReservoirStorage.__init__', 'clauses': _INV}, {'fn': 'GeometricReservoirStorage.update', 'clauses': _INV},
    {'fn': 'UniformReservoirStorage.__init__', 'clauses': _INV}, {'fn': 'UniformReservoirStorage.update', 'clauses': _INV},
    {'fn': 'Storage.__len__'}, {'fn': 'Storage.get_data'}, {'fn': 'IntervalStorage.get_data'},
]
EXPLANATION = ("Data-structure invariant over an abstract view with ghost arrival ids (mirror of _storage_x) and the ghost stream "
               "history: len = min(seen, capacity); ids pairwise distinct and < seen; xs[i] = history[ids[i]]; targets aligned or "
               "none kept; Batch ids = 0..seen-1; Interval/Sequence ids = the last len arrivals in order. Established by every "
               "__init__, preserved by every update for every outcome of random.random / random.randrange.")
ASSUMPTIONS = ["A3: no external writes to private fields between calls", "A5: callers do not mutate an instance after handing it over",
               "capacity >= 1 (as in the quantifier of the property)", "deque modelled as a list with popleft = shift"]
TRUSTED_BASE = ["list/deque primitives (append, item store, popleft)", "random.randrange(n) in [0,n), random.random() in [0,1)"]
LEVEL_TEXT = ("Deductive proof of the storage invariant (established by every constructor, preserved by every update, observers pure) "
              "over the real source for all update sequences, capacities, store_targets and all outcomes of the random draws.")
LEVEL_NOTE = "ghost arrival ids are mirrored from the real container operations by the engine; list/deque primitives and RNG ranges trusted"
TECHNIQUE = "contract-based deductive verification: class invariant with ghost state, AST->SMT VCs (z3/cvc5)"
DESIGN_REF = "DESIGN.md 5/C07"


class _Script:
    """scripted global RNG: plays a fixed list of draws"""

    def __init__(self, draws):
        self.draws = list(draws)
        self.used = 0

    def random(self):
        v = self.draws[self.used]
        self.used += 1
        return v

    def randrange(self, n):
        v = self.draws[self.used]
        self.used += 1
        return int(v * n) if isinstance(v, float) else v % n


def _check_view(st, xs, ys, cap, store_targets, order):
    sx, sy = st.get_data()
    sx, sy = list(sx), list(sy)
    n = len(xs)
    if len(st) != len(sx) or len(sx) != (min(n, cap) if cap else n):
        return f"holds {len(sx)} after {n} updates with capacity {cap}"
    if order in ('all', 'last'):
        # deterministic storages: the exact expected view, by object identity (the same object may arrive more than once)
        exp_idx = list(range(n)) if order == 'all' else list(range(n - len(sx), n))
        if len(exp_idx) != len(sx) or any(sx[i] is not xs[j] for i, j in enumerate(exp_idx)):
            return f"{'batch' if order == 'all' else 'interval'} content {[x.get('id') for x in sx]}, expected arrivals {exp_idx}"
        if store_targets and (len(sy) != len(sx) or any(sy[i] != ys[j] for i, j in enumerate(exp_idx))):
            return f"targets {sy} not aligned with arrivals {exp_idx}"
        if not store_targets and len(sy) != 0:
            return f"targets kept although store_targets=False: {sy}"
        return None
    idx = []
    for i, x in enumerate(sx):
        if 'id' not in x or not (0 <= x['id'] < n) or xs[x['id']] is not x:
            return f"slot {i} holds something that was never observed: {x}"
        idx.append(x['id'])
    if len(set(idx)) != len(idx):
        return f"an arrival is stored twice: {idx}"
    if store_targets:
        if len(sy) != len(sx) or any(sy[i] != ys[idx[i]] for i in range(len(sx))):
            return f"targets {sy} not aligned with instances {idx}"
    elif len(sy) != 0:
        return f"targets kept although store_targets=False: {sy}"
    if order == 'all' and idx != list(range(n)):
        return f"batch order {idx}"
    if order == 'last' and idx != list(range(n - len(idx), n)):
        return f"interval content {idx}"
    return None


def BOUNDED(tier, seed):
    import random as pyrandom
    from ixai.storage import (BatchStorage, IntervalStorage, SequenceStorage, UniformReservoirStorage,
                              GeometricReservoirStorage)
    rng = random.Random(seed)
    fails, evals, distinct = [], 0, set()
    configs = []
    for tg in (True, False):
        configs.append(('batch', lambda tg=tg: BatchStorage(store_targets=tg), None, tg, 'all'))
        configs.append(('sequence', lambda tg=tg: SequenceStorage(store_targets=tg), 1, tg, 'last'))
        for k in (1, 2, 3):
            configs.append((f'interval{k}', lambda tg=tg, k=k: IntervalStorage(size=k, store_targets=tg), k, tg, 'last'))
            configs.append((f'uniform{k}', lambda tg=tg, k=k: UniformReservoirStorage(size=k, store_targets=tg), k, tg, None))
            for p in (None, 0.0, 0.5, 1.0):
                configs.append((f'geometric{k}p{p}', lambda tg=tg, k=k, p=p:
                                GeometricReservoirStorage(size=k, constant_probability=p, store_targets=tg), k, tg, None))
    saved = (pyrandom.random, pyrandom.randrange)
    n_scripts = 12 if tier == 'quick' else 120
    try:
        for name, mk, cap, tg, order in configs:
            for sidx in range(n_scripts):
                draws = [rng.random() for _ in range(64)]
                sc = _Script(draws)
                pyrandom.random, pyrandom.randrange = sc.random, sc.randrange
                st = mk()
                xs, ys = [], []
                for t in range(7):
                    x = {'id': t, 'v': t * 10}
                    if sidx % 4 == 3 and t in (3, 5) and xs and order in ('all', 'last'):
                        x = xs[-1]      # the SAME dict object arrives again (a caller that re-uses one dict per arrival)
                    # some arrivals carry no target (y omitted / None), one carries a falsy one: the stored target is then None / 0
                    y = None if (sidx % 3 == 1 and t in (1, 4)) else (0 if (sidx % 3 == 2 and t == 2) else f'y{t}')
                    xs.append(x)
                    ys.append(y)
                    if y is None and t == 1:
                        st.update(x)
                    else:
                        st.update(x, y)
                    evals += 1
                    distinct.add((name, tg, sidx, t))
                    err = _check_view(st, xs, ys, cap, tg, order)
                    if err:
                        fails.append({'key': name.rstrip('0123456789.pNone'), 'summary': f'{name} store_targets={tg}: {err}',
                                      'config': name, 'store_targets': tg, 'draws': draws[:sc.used], 'updates': t + 1,
                                      'observed': err})
                        break
    finally:
        pyrandom.random, pyrandom.randrange = saved
    return [{'name': 'view_invariant_scripted_rng', 'evaluations': evals, 'distinct_nontrivial': len(distinct),
             'rule': 'every storage class x store_targets x capacity 1..3 x constant probability {default,0,0.5,1} x seeded scripted draw '
                     'sequences (a third of them with arrivals whose target is omitted / None, a third with a falsy target 0); '
                     'sequences; after each of 7 updates the view is checked against the stream by object identity; distinct = '
                     '(config, script, prefix length)',
             'bound': '7 updates, capacity <= 3', 'failures': fails}]


def REPLAY(w):
    return {'confirmed': False, 'note': 'bounded witnesses are re-derived by re-running the bounded stand-in'}
