"""C09 - GeometricReservoirStorage follows its recency-weighted inclusion law."""
import itertools
from fractions import Fraction

ID = 'C09'
LEVEL = 'other'
CONTRACTS = ['contracts.storage']
CLOSURE = [
    {'fn': 'GeometricReservoirStorage.__init__', 'clauses': ['prob', 'cfg', 'empty']},
    {'fn': 'GeometricReservoirStorage.update', 'clauses': ['inclusion_law', 'p_one_stores', 'p_const', 'frame:*']},
]
LEAN = ['geometric_survival']
EXPLANATION = ("Per-step law, for every state and every outcome of the draws: when full, update draws u = random.random() exactly once, "
               "replaces iff u <= p where p is the constructor argument (default 1/size) and is never written again, then draws the "
               "slot with randrange(size) over the full range and writes x (and y) there and nowhere else; p = 1 always stores the new "
               "observation. The closed form p(1-p/k)^(n-t) / (1-p/k)^(n-k) follows from the survival recursion (Lean: "
               "geometric_survival) given that P(u <= p) = p and the slot is uniform - the distribution of the primitives is trusted.")
ASSUMPTIONS = ["P(random.random() <= p) = p (53-bit grid atoms ignored), random.randrange uniform, draws independent (CPython, trusted)",
               "A3: no external writes to constant_probability"]
TRUSTED_BASE = ["lean 4.33 + Mathlib (geometric_survival)", "distribution of random.random / random.randrange"]
LEVEL_TEXT = ("Deductive proof of the per-step acceptance/slot law over the real update code for all states and draws, the closed-form "
              "inclusion probability by a Lean lemma from the survival recursion; 'other' because the probabilistic reading rests on "
              "the trusted distribution of the RNG primitives. Exact enumeration of scripted draws (k<=3, n<=6) is a bounded stand-in.")
LEVEL_NOTE = "RNG distributions trusted; bounded enumeration compares exact inclusion probabilities with the law for small k, n"
TECHNIQUE = "contract-based deductive verification of the draw discipline (z3/cvc5) + Lean closed form + bounded exact enumeration"
DESIGN_REF = "DESIGN.md 5/C09"


def _enumerate(k, n, p):
    """exact inclusion probabilities of every arrival after n updates through the real class, whatever draws it makes:
    randrange draws enumerated exactly, random.random draws on a 12-point midpoint grid - exact here, because the only
    thresholds (p in {0, 1/4, 1/3, 1/2, 1}) lie on the grid (props/_util.outcome_distribution)"""
    from ixai.storage import GeometricReservoirStorage
    from props._util import outcome_distribution

    def run():
        st = GeometricReservoirStorage(size=k, constant_probability=float(p), store_targets=False)
        for t in range(n):
            st.update({'t': t})
        xs, _ = st.get_data()
        return tuple(sorted(x['t'] for x in xs))
    dist = outcome_distribution(run, 12, exact=True)
    probs = [Fraction(0)] * n
    total = Fraction(0)
    for content, w in dist.items():
        total += w
        for t in content:
            probs[t] += w
    return probs, total


def BOUNDED(tier, seed):
    fails, evals, cases = [], 0, set()
    ks = (1, 2, 3)
    ns = (1, 2, 3, 4, 5) if tier == 'quick' else (1, 2, 3, 4, 5, 6)
    for k in ks:
        for n in ns:
            for p in (Fraction(0), Fraction(1, 4), Fraction(1, k), Fraction(1, 2), Fraction(1)):
                probs, total = _enumerate(k, n, p)
                evals += 1
                cases.add((k, n, p))
                exp = []
                for t in range(1, n + 1):
                    if n <= k:
                        exp.append(Fraction(1))
                    elif t <= k:
                        exp.append((1 - p / k) ** (n - k))
                    else:
                        exp.append(p * (1 - p / k) ** (n - t))
                if total != 1 or probs != exp:
                    fails.append({'key': 'inclusion_law', 'summary': f'k={k} n={n} p={p}: inclusion probabilities {[str(x) for x in probs]} '
                                  f'!= law {[str(x) for x in exp]}', 'k': k, 'n': n, 'p': str(p),
                                  'observed': {'probs': [str(x) for x in probs], 'law': [str(x) for x in exp], 'total': str(total)}})
    # the law does not depend on the targets: store_targets=True with arrivals that carry no target
    from ixai.storage import GeometricReservoirStorage
    for k, n in ((1, 3), (2, 4)):
        evals += 1
        cases.add((k, n, 'targets_omitted'))
        st = GeometricReservoirStorage(size=k, constant_probability=1.0, store_targets=True)
        for t in range(n):
            if t % 2:
                st.update({'t': t})
            else:
                st.update({'t': t}, None)
            xs, ys = st.get_data()
            if not any(x['t'] == t for x in xs) or len(ys) != len(xs):
                fails.append({'key': 'inclusion_law', 'summary': f'k={k} p=1 store_targets=True: arrival {t} (no target supplied) is not stored '
                              f'(stored {[x["t"] for x in xs]}, {len(ys)} targets)', 'observed': [x['t'] for x in xs]})
                break
    return [{'name': 'exact_inclusion_probabilities', 'evaluations': evals, 'distinct_nontrivial': len(cases),
             'rule': 'every accept/reject x slot outcome forced through the real class via scripted draws, exact rational weights; '
                     'k in 1..3, n up to 5 (quick) / 6 (thorough), p in {0, 1/4, 1/k, 1/2, 1}; distinct = (k, n, p)',
             'bound': 'k <= 3, n <= 6', 'failures': fails}]


def REPLAY(w):
    if 'k' in w:
        probs, total = _enumerate(int(w['k']), int(w['n']), Fraction(w['p']))
        return {'confirmed': [str(x) for x in probs] != w['observed']['law'], 'probs': [str(x) for x in probs]}
    return {'confirmed': False}
