"""C18 - results are reproducible from the global random seeds."""
import json
import os
import subprocess
import sys
import textwrap

ID = 'C18'
LEVEL = 'other'
CONTRACTS = []
CLOSURE = []
EXPLANATION = ("Effect contracts over the real source of ixai/{storage,imputer,explainer,utils} (every function, re-read on every run): "
               "each call resolves to a function of the library, a declared callback / dependency object, a primitive classified "
               "deterministic, or a draw from the MODULE-LEVEL generators random.* / np.random.*; time, datetime, os.urandom, uuid, "
               "secrets, id(), hash(), generator instances (random.Random, SystemRandom, default_rng, RandomState) and re-seeding are "
               "forbidden; constructors of river trees carry the precondition 'seed is not None'. Given closedness, the symbolic "
               "execution used for the other properties is by construction a function of (arguments, state, callbacks, draw list).")
ASSUMPTIONS = ["the classification table of primitives (numpy/math/copy/... deterministic); dependencies deterministic given their seeds",
               "set iteration order enters draws only through PYTHONHASHSEED, which 'the same interpreter configuration' fixes",
               "calls through local names / attributes of objects are calls of library objects, declared callbacks or dependency objects"]
TRUSTED_BASE = ["primitive classification table", "river / numpy / sklearn determinism given seeds"]
LEVEL_TEXT = ("Closed-world effect analysis (an obligation per function: `effects/closed`, plus seed preconditions of dependency "
              "constructors) over the real source; 'other' because it is a syntactic effect contract, not an SMT proof. Bounded stand-in: "
              "two replays in fresh interpreters with identical global seeds compared bit for bit over explainer x storage x imputer.")
LEVEL_NOTE = "primitive classification trusted; dependency determinism assumed; bounded two-run comparison"
TECHNIQUE = "effect contracts: closed-world entropy analysis of the real AST + bounded two-run bitwise comparison"
DESIGN_REF = "DESIGN.md 5/C18"


def STATIC(tier):
    from pyvc import effects
    obls, draws = effects.analyse()
    STATIC.draws = draws
    return obls


_SCRIPT = textwrap.dedent('''
    import sys, json, random, warnings
    warnings.simplefilter('ignore')
    sys.path.insert(0, %(repo)r)
    import numpy as np
    cfg = json.loads(sys.argv[1])
    if not cfg.get('seed_after_import'):
        random.seed(cfg['seed']); np.random.seed(cfg['seed'])
    from ixai.explainer import IncrementalSage, IncrementalPFI, BatchSage
    from ixai.storage import UniformReservoirStorage, GeometricReservoirStorage, TreeStorage, BatchStorage
    from ixai.imputer import MarginalImputer, TreeImputer
    if cfg.get('seed_after_import'):
        random.seed(cfg['seed']); np.random.seed(cfg['seed'])
    def scenario(steps=None, keep=False):
        names = ['a', 'b', 'c']
        def model(x):
            if not isinstance(x, dict):
                return [model(z) for z in x]
            return {'output': x['a'] * 0.3 + x['b'] * x['c']}
        def loss(y, p):
            return (y - p['output']) ** 2
        if cfg.get('river_labels'):
            # a classifier that emits string labels, behind the library's RiverWrapper (one-hot over the labels seen so far);
            # the loss looks at the label keys
            from ixai.utils.wrappers import RiverWrapper
            model = RiverWrapper(lambda x: 'hi' if x['a'] > 0.6 else ('lo' if x['b'] > 0.5 else 'mid'))

            def loss(y, p):      # noqa
                tgt = 'hi' if y > 0.6 else 'lo'
                return sum((v - (1.0 if k == tgt else 0.0)) ** 2 for k, v in p.items()) + 0.125 * len(p)
        if cfg['storage'] == 'tree':
            st = TreeStorage(cat_feature_names=[], num_feature_names=names, grace_period=5, leaf_reservoir_length=3)
            imp = TreeImputer(model, st, use_storage=cfg.get('use_storage', False))
        else:
            st = {'uniform': lambda: UniformReservoirStorage(size=5), 'geometric': lambda: GeometricReservoirStorage(size=5),
                  'batch': lambda: BatchStorage()}[cfg['storage']]()
            imp = MarginalImputer(model, cfg.get('strategy', 'joint'), st)
        ex = {'sage': lambda: IncrementalSage(model, loss, names, storage=st, imputer=imp, smoothing_alpha=0.3),
              'pfi': lambda: IncrementalPFI(model, loss, names, storage=st, imputer=imp, smoothing_alpha=0.3)}[cfg['explainer']]()
        rng = random.Random(12345)
        out = None
        kept = []
        if cfg.get('identity'):
            # the storage is trained beforehand; afterwards every instance is a fresh dict that nobody keeps (unless keep=True):
            # CPython then reuses the addresses - results must not depend on object identities
            for t in range(40):
                st.update({k: rng.random() for k in names})
        x = None
        for t in range(steps or cfg['steps']):
            x = None            # the previous instance is released before the next one is built (its address may be reused)
            x = {k: rng.random() for k in names}
            if cfg.get('identity'):
                if keep:
                    kept.append(x)
                out = ex.explain_one(x, rng.random(), update_storage=False)
            else:
                out = ex.explain_one(x, rng.random())
        content = None
        if cfg['storage'] != 'tree':
            content = [sorted(r.items()) for r in st.get_data()[0]]
        else:
            content = {f: sorted((k, [sorted(p.items()) for p in v.get_data()[0]]) for k, v in d.items()) for f, d in st.data_reservoirs.items()}
        return json.dumps({'values': {k: float(v).hex() for k, v in out.items()}, 'storage': content}, sort_keys=True)

    first = scenario()
    outs = [first]
    if cfg.get('identity'):
        random.seed(cfg['seed']); np.random.seed(cfg['seed'])
        outs.append(scenario(keep=True))
    if cfg.get('in_process'):
        # the same scenario again in the SAME interpreter after re-seeding the global generators, once directly and once after
        # other library objects were used (a shorter unrelated run): the results may depend on nothing but the global seeds
        random.seed(cfg['seed']); np.random.seed(cfg['seed'])
        outs.append(scenario())
        scenario(steps=7)
        random.seed(cfg['seed']); np.random.seed(cfg['seed'])
        outs.append(scenario())
    print(json.dumps(outs))
''')


def _run(cfg):
    env = dict(os.environ, PYTHONHASHSEED='0')
    from pyvc import frontend
    p = subprocess.run([sys.executable, '-c', _SCRIPT % {'repo': frontend.REPO}, json.dumps(cfg)], capture_output=True, text=True,
                       env=env, timeout=600)
    if p.returncode != 0:
        return 'ERROR: ' + p.stderr[-400:]
    return p.stdout.strip().splitlines()[-1]


def _configs(tier):
    cfgs = []
    for explainer in ('sage', 'pfi'):
        for storage in ('uniform', 'geometric', 'tree'):
            cfgs.append({'explainer': explainer, 'storage': storage, 'seed': 7, 'steps': 25})
    cfgs.append({'explainer': 'sage', 'storage': 'uniform', 'strategy': 'product', 'seed': 3, 'steps': 25})
    cfgs.append({'explainer': 'pfi', 'storage': 'tree', 'use_storage': True, 'seed': 5, 'steps': 40})
    # the generators seeded only AFTER the library was imported (import-time code must not consume or bypass them)
    cfgs.append({'explainer': 'sage', 'storage': 'tree', 'seed': 11, 'steps': 25, 'seed_after_import': True})
    cfgs.append({'explainer': 'pfi', 'storage': 'geometric', 'seed': 11, 'steps': 25, 'seed_after_import': True})
    # replays inside one interpreter (re-seeded; also after other library objects were used)
    cfgs.append({'explainer': 'sage', 'storage': 'tree', 'seed': 4, 'steps': 25, 'in_process': True})
    cfgs.append({'explainer': 'pfi', 'storage': 'tree', 'use_storage': True, 'seed': 4, 'steps': 30, 'in_process': True})
    cfgs.append({'explainer': 'sage', 'storage': 'geometric', 'seed': 4, 'steps': 25, 'in_process': True})
    cfgs.append({'explainer': 'sage', 'storage': 'geometric', 'seed': 4, 'steps': 25, 'in_process': True, 'river_labels': True})
    cfgs.append({'explainer': 'pfi', 'storage': 'tree', 'use_storage': True, 'seed': 4, 'steps': 25, 'identity': True})
    if tier == 'quick':
        cfgs = [cfgs[0], cfgs[2], cfgs[5], cfgs[7], cfgs[8], cfgs[10], cfgs[11], cfgs[13], cfgs[14]]
    return cfgs


def BOUNDED(tier, seed):
    from concurrent.futures import ThreadPoolExecutor
    cfgs = _configs(tier)
    jobs = [(c, i) for c in cfgs for i in range(2)]
    with ThreadPoolExecutor(8) as ex:
        outs = list(ex.map(lambda j: _run(j[0]), jobs))
    fails = []
    for ci, c in enumerate(cfgs):
        a, b = outs[2 * ci], outs[2 * ci + 1]
        if a.startswith('ERROR') or b.startswith('ERROR'):
            fails.append({'key': 'run_error', 'summary': f'replay of {c} failed: {a[:200]}'})
        elif a != b or len(set(json.loads(a))) != 1:
            if a == b:
                a, b = json.loads(a)[0], [x for x in json.loads(a) if x != json.loads(a)[0]][0]
            fails.append({'key': 'not_reproducible_' + c['storage'], 'summary': f'replays of {c} with identical global seeds differ (fresh interpreters and / or re-seeded replays in one interpreter)',
                          'config': c, 'observed': {'first': a[:300], 'second': b[:300]}})
    return [{'name': 'two_run_bitwise', 'evaluations': len(jobs), 'distinct_nontrivial': max(2, len(cfgs)),
             'rule': 'each configuration (explainer x storage x imputer) replayed twice in fresh interpreters (PYTHONHASHSEED=0) with random '
                     'and numpy seeded identically - some also re-seeded and replayed inside one interpreter, directly and after other library objects were used - '
                     'and numpy seeded identically; importance values compared by float.hex(), storage contents compared exactly',
             'bound': f'{len(cfgs)} configurations, 25-40 observations', 'failures': fails}]


def SEARCH_STATIC(x, seed):
    if 'seed_not_none' not in x['id'] and 'import_time' not in x['id']:
        return None
    c = {'explainer': 'pfi', 'storage': 'tree', 'use_storage': True, 'seed': 5, 'steps': 40, 'seed_after_import': 'import_time' in x['id']}
    a, b = _run(c), _run(c)
    if a != b and not a.startswith('ERROR'):
        return {'witness': {'config': c}, 'observed': {'confirmed': True, 'first': a[:300], 'second': b[:300]}}
    return None


def REPLAY(w):
    c = w.get('config')
    if not c:
        return {'confirmed': False}
    a, b = _run(c), _run(c)
    return {'confirmed': a != b, 'first': a[:200], 'second': b[:200]}
