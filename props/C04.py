"""C04 - PFI/SAGE updates are unbiased: uniform feature orders and background rows."""
import itertools
import math
import random
import warnings
from fractions import Fraction

ID = 'C04'
LEVEL = 'other'
CONTRACTS = ['contracts.explainer', 'contracts.batch']
CLOSURE = [
    # D1: one permutation of ALL feature names per explained observation, used in order, unfiltered
    {'fn': 'IncrementalSage.explain_one', 'clauses': ['one_full_permutation', 'complement_subset', 'perm_onto', 'perm_distinct', 'perm_names',
                                                      'chain']},
    {'fn': 'BatchExplainer.explain_many', 'clauses': ['one_full_permutation', 'perm_onto', 'perm_distinct', 'perm_names']},
    {'fn': 'BatchExplainer.explain_many_original', 'clauses': ['one_full_permutation', 'perm_onto', 'perm_distinct', 'perm_names',
                                                               'background_from_whole_data', 'xs_dom', 'xs_val']},
    # D2 / D3: one uniform row over the whole storage view per sample (joint) / per feature (product)
    {'fn': 'Imputer._sample_marginals', 'clauses': ['draw_full_range', 'row_range', 'same_row', 'count:uniform_int', 'keys']},
    {'fn': 'Imputer._sample_product_marginals', 'clauses': ['draw_full_range', 'from_rows', 'keys']},
    {'fn': 'Imputer._sample', 'clauses': ['joint_same_row', 'from_rows', 'keys']},
    {'fn': 'MarginalImputer.impute', 'clauses': ['from_background', 'count', 'count:model', 'one_sample_per_prediction']},
    # D5: PFI asks for exactly the one feature
    {'fn': 'IncrementalPFI.explain_one', 'clauses': ['single_feature_subset', 'pfi_importance']},
]
EXPLANATION = ("The 'Equivalently' clause of the statement as deterministic obligations over the ghost draw list - who draws what, from "
               "which range, and how the draw is used: D1 exactly one np.random.permutation per explained observation over ALL feature "
               "names, the chain follows it in order, unfiltered; D2 joint: one random.randrange(len(storage view)) per sample, all subset "
               "features read from that row; D3 product: one randrange(len(view)) per subset feature; D4 original mode: every inner sample "
               "draws random.randint(0, len(x_data)-1) with x_data the whole data set; D5 PFI: subset exactly [f]. Together with the "
               "functional postconditions of C02/C03/C05 (the contribution is a fixed function of the draws) the expectation claim "
               "follows from the permutation form of the Shapley value and linearity of expectation - given uniform, independent primitives.")
ASSUMPTIONS = ["uniformity and independence of random.randrange, random.randint, np.random.permutation (CPython/NumPy: trusted)",
               "the pen-and-paper step from draw discipline to 'expected contribution = Shapley value / expected loss increase' (cited: "
               "permutation form of the Shapley value)"]
TRUSTED_BASE = ["distribution of the RNG primitives", "permutation form of the Shapley value"]
LEVEL_TEXT = ("Deductive proof of the draw discipline over the real source (ranges, counts and use of every draw, all iterations); the "
              "probabilistic reading rests on the trusted distribution of the primitives, hence 'other'. Bounded stand-in: exact "
              "expectation by exhaustively scripting the library's own draws (all permutations x all row choices) against an "
              "independently computed Shapley value / PFI expectation for d <= 3, <= 3 rows.")
LEVEL_NOTE = "RNG distributions trusted; expectation claim by a cited argument; bounded enumeration for tiny cases"
TECHNIQUE = "contract-based deductive verification of the draw discipline over ghost draw events (z3/cvc5) + bounded exact enumeration"
DESIGN_REF = "DESIGN.md 5/C04"


def _model(x):
    if not isinstance(x, dict):
        return [_model(xi) for xi in x]
    vals = [Fraction(v) for v in x.values()]
    return {'output': vals[0] * 2 + vals[1] * vals[-1] + (vals[2] if len(vals) > 2 else 0)}


def _loss(y, p):
    return (Fraction(y) - p['output']) ** 2


def _shapley(names, value):
    d = len(names)
    phi = {k: Fraction(0) for k in names}
    for perm in itertools.permutations(names):
        S = frozenset()
        for f in perm:
            phi[f] += value(S | {f}) - value(S)
            S = S | {f}
    return {k: v / math.factorial(d) for k, v in phi.items()}


def _expected(run, names):
    """exact expectation of the per-feature values returned by run() over the library's own draws (every permutation and
    every row choice, whatever primitives the code uses: props/_util.outcome_distribution)"""
    from props._util import outcome_distribution
    dist = outcome_distribution(lambda: tuple(sorted(((str(k), k, Fraction(v)) for k, v in run().items()), key=lambda t: t[0])), 1, exact=True)
    tot = {k: Fraction(0) for k in names}
    total = Fraction(0)
    for outcome, w in dist.items():
        total += w
        for _, k, v in outcome:
            tot[k] += w * v
    if total != 1:
        raise RuntimeError(f'outcome probabilities sum to {total}')
    return tot, len(dist)


def BOUNDED(tier, seed):
    warnings.simplefilter('ignore')
    from ixai.explainer import BatchSage
    from ixai.storage import BatchStorage
    from ixai.imputer import MarginalImputer
    rng = random.Random(seed)
    fails, evals, distinct = [], 0, set()

    def close(a, b):
        # BatchSage accumulates in floats (its sums start at 0.): compare up to rounding
        return abs(float(a) - float(b)) <= 1e-9 * (1 + abs(float(b)))
    for d in (2, 3):
        names = ['a', 'b', 'c'][:d]
        rows = [{k: Fraction(rng.randint(-2, 2)) for k in names} for _ in range(2)]
        x = {k: Fraction(rng.randint(-2, 2) + 3) for k in names}
        y = 1
        base = _loss(y, _model(x))           # single explained observation: the mean prediction is M(x)

        def run_many(strategy, n_inner=1):
            def run():
                st = BatchStorage(store_targets=True)
                for r in rows:
                    st.update(r, 0)
                ex = BatchSage(_model, list(names), _loss, n_inner_samples=n_inner, storage=st, imputer=MarginalImputer(_model, strategy, st))
                return ex.explain_many([x], [y], verbose=False)
            return run
        # joint strategy: ONE uniform row for all imputed features: value(S) = - E_row L(y, M(x_S, row_notS)), w(empty) = - L(y, mean prediction)
        def v(S):
            return -sum(_loss(y, _model({k: (x[k] if k in S else r[k]) for k in names})) for r in rows) / len(rows)

        def w(S):
            return v(S) if S else -base
        shw = _shapley(names, w)
        evals += 1
        distinct.add(('sage_many', d))
        try:
            exp, n_out = _expected(run_many('joint'), names)
            if any(not close(exp[k], shw[k]) for k in names):
                fails.append({'key': 'sage_unbiased', 'summary': f'd={d}: expected SAGE contributions { {k: float(v) for k, v in exp.items()} } != '
                              f'Shapley values { {k: float(v) for k, v in shw.items()} } (all orders and row choices enumerated through the real class)'})
        except Exception as ex:   # noqa
            fails.append({'key': 'sage_unbiased', 'summary': f'd={d}, joint strategy: enumeration of the draws failed: {ex!r}'})
        # two inner samples (joint): the rows of one call are INDEPENDENT uniform draws (with replacement); the coalition value is
        # the expected loss of the MEAN of the two predictions
        if d == 2:
            def v2(S):
                tot = Fraction(0)
                for r1 in rows:
                    for r2 in rows:
                        p1 = _model({k: (x[k] if k in S else r1[k]) for k in names})['output']
                        p2 = _model({k: (x[k] if k in S else r2[k]) for k in names})['output']
                        tot += _loss(y, {'output': (p1 + p2) / 2})
                return -tot / (len(rows) ** 2)

            def w2(S):
                return v2(S) if S else -base
            sh2 = _shapley(names, w2)
            evals += 1
            distinct.add(('sage_many_two_inner', d))
            try:
                exp2, _ = _expected(run_many('joint', 2), names)
                if any(not close(exp2[k], sh2[k]) for k in names):
                    fails.append({'key': 'sage_unbiased', 'summary': f'd={d}, two inner samples: expected SAGE contributions '
                                  f'{ {k: float(v) for k, v in exp2.items()} } != Shapley values with independent background rows '
                                  f'{ {k: float(v) for k, v in sh2.items()} }'})
            except Exception as ex:   # noqa
                fails.append({'key': 'sage_unbiased', 'summary': f'd={d}, two inner samples: enumeration of the draws failed: {ex!r}'})
        # product strategy: an INDEPENDENT uniform row per imputed feature
        def vp(S):
            out = [f for f in names if f not in S]
            tot = Fraction(0)
            for combo in itertools.product(rows, repeat=len(out)):
                z = dict(x)
                for f, r in zip(out, combo):
                    z[f] = r[f]
                tot += _loss(y, _model({k: z[k] for k in names}))
            return -tot / (len(rows) ** len(out))

        def wp(S):
            return vp(S) if S else -base
        shp = _shapley(names, wp)
        evals += 1
        distinct.add(('sage_product', d))
        try:
            expp, _ = _expected(run_many('product'), names)
            if any(not close(expp[k], shp[k]) for k in names):
                fails.append({'key': 'sage_unbiased_product', 'summary': f'd={d}, product strategy: expected SAGE contributions '
                              f'{ {k: float(v) for k, v in expp.items()} } != Shapley values of the product-marginal game '
                              f'{ {k: float(v) for k, v in shp.items()} }'})
        except Exception as ex:   # noqa
            fails.append({'key': 'sage_unbiased_product', 'summary': f'd={d}, product strategy: enumeration of the draws failed: {ex!r}'})
    # background rows come from the storage AS IT IS NOW: a sliding window that has moved on since an earlier imputation
    from ixai.storage import IntervalStorage
    from props._util import outcome_distribution
    evals += 1
    distinct.add(('current_window',))
    try:
        def run_window():
            st = IntervalStorage(size=2, store_targets=False)
            imp = MarginalImputer(lambda z: {'output': Fraction(z['a'])}, 'joint', st)
            st.update({'a': Fraction(10), 'b': Fraction(0)})
            st.update({'a': Fraction(20), 'b': Fraction(0)})
            imp.impute(['a'], {'a': Fraction(1), 'b': Fraction(2)}, 1)          # an imputation on the full window
            st.update({'a': Fraction(30), 'b': Fraction(0)})                    # the window moves on: 10 leaves, 30 enters
            return imp.impute(['a'], {'a': Fraction(1), 'b': Fraction(2)}, 1)[0]['output']
        dist = outcome_distribution(run_window, 1, exact=True)
        if dist != {Fraction(20): Fraction(1, 2), Fraction(30): Fraction(1, 2)}:
            fails.append({'key': 'sage_unbiased', 'summary': 'after the window moved from (10, 20) to (20, 30) the imputed value of a is distributed '
                          f'{ {str(k): str(v) for k, v in dist.items()} } instead of uniformly over the stored rows 20, 30'})
    except Exception as ex:   # noqa
        fails.append({'key': 'sage_unbiased', 'summary': f'sliding-window imputation: enumeration of the draws failed: {ex!r}'})
    # original mode: background rows uniform over the WHOLE data set (the explained observation included), for every observation
    names = ['a', 'b']
    data = [{'a': Fraction(0), 'b': Fraction(1)}, {'a': Fraction(2), 'b': Fraction(-1)}, {'a': Fraction(3), 'b': Fraction(4)}]
    ys = [0, 2, 1]
    if tier == 'quick':
        data, ys = data[:2] + [data[2]], ys
    preds = [_model(r)['output'] for r in data]
    mean_pred = {'output': sum(preds) / len(preds)}
    ref = {k: Fraction(0) for k in names}
    for xi, yi in zip(data, ys):
        def vo(S, xi=xi, yi=yi):
            if not S:
                return -_loss(yi, mean_pred)
            return -sum(_loss(yi, _model({k: (xi[k] if k in S else r[k]) for k in names})) for r in data) / len(data)
        sh = _shapley(names, vo)
        for k in names:
            ref[k] += sh[k] / len(data)
    evals += 1
    distinct.add(('original_mode',))
    try:
        def run_orig():
            ex = BatchSage(_model, list(names), _loss, n_inner_samples=1)
            return ex.explain_many_original(list(data), list(ys), verbose=False)
        expo, n_out = _expected(run_orig, names)
        if any(not close(expo[k], ref[k]) for k in names):
            fails.append({'key': 'original_background_range', 'summary': f'original mode: expected values { {k: float(v) for k, v in expo.items()} } != '
                          f'average Shapley values with background rows uniform over the whole data set { {k: float(v) for k, v in ref.items()} }',
                          'observed': {k: float(v) for k, v in expo.items()}})
    except Exception as ex:   # noqa
        fails.append({'key': 'original_background_range', 'summary': f'original mode: enumeration of the draws failed: {ex!r}'})
    return [{'name': 'exact_expectation_enumeration', 'evaluations': evals, 'distinct_nontrivial': max(2, len(distinct)),
             'rule': 'every outcome of the library\'s own draws (feature orders, row choices - whatever primitives the code uses) is enumerated '
                     'through the real BatchSage with exact weights (d in {2,3}, 2 stored rows, n_inner = 1; original mode: 3 observations, d = 2); '
                     'the exact expected contributions are compared with independently computed Shapley values of the joint / product / '
                     'whole-data-set games', 'bound': 'd <= 3, <= 3 rows', 'failures': fails}]


def SEARCH(ob, seed):
    if ob.meta.get('clause') != 'background_from_whole_data':
        return None
    b = BOUNDED('quick', seed)[0]
    for f in b['failures']:
        if f['key'] == 'original_background_range':
            return {'witness': {'key': f['key']}, 'observed': {'confirmed': True, 'what': f['summary']}}
    return None


def REPLAY(w):
    b = BOUNDED('quick', 0)[0]
    hit = [f for f in b['failures'] if f['key'] == w.get('key')]
    return {'confirmed': bool(hit), 'observed': [f['summary'] for f in hit[:2]]}
