"""C04 - PFI/SAGE updates are unbiased: uniform feature orders and background rows."""
import itertools
import math
import random
import warnings
from fractions import Fraction

ID = 'C04'
LEVEL = 'other'
CONTRACTS = ['contracts.explainer', 'contracts.batch']
CLOSURE = [
    # D1: one permutation of ALL feature names per explained observation, used in order, unfiltered
    {'fn': 'IncrementalSage.explain_one', 'clauses': ['one_full_permutation', 'complement_subset', 'perm_onto', 'perm_distinct', 'perm_names',
                                                      'chain']},
    {'fn': 'BatchExplainer.explain_many', 'clauses': ['one_full_permutation', 'perm_onto', 'perm_distinct', 'perm_names']},
    {'fn': 'BatchExplainer.explain_many_original', 'clauses': ['one_full_permutation', 'perm_onto', 'perm_distinct', 'perm_names',
                                                               'background_from_whole_data', 'xs_dom', 'xs_val']},
    # D2 / D3: one uniform row over the whole storage view per sample (joint) / per feature (product)
    {'fn': 'Imputer._sample_marginals', 'clauses': ['draw_full_range', 'row_range', 'same_row', 'count:random.randrange', 'keys']},
    {'fn': 'Imputer._sample_product_marginals', 'clauses': ['draw_full_range', 'from_rows', 'keys']},
    {'fn': 'Imputer._sample', 'clauses': ['joint_same_row', 'from_rows', 'keys']},
    {'fn': 'MarginalImputer.impute', 'clauses': ['from_background', 'count', 'count:model', 'one_sample_per_prediction']},
    # D5: PFI asks for exactly the one feature
    {'fn': 'IncrementalPFI.explain_one', 'clauses': ['single_feature_subset', 'pfi_importance']},
]
EXPLANATION = ("The 'Equivalently' clause of the statement as deterministic obligations over the ghost draw list - who draws what, from "
               "which range, and how the draw is used: D1 exactly one np.random.permutation per explained observation over ALL feature "
               "names, the chain follows it in order, unfiltered; D2 joint: one random.randrange(len(storage view)) per sample, all subset "
               "features read from that row; D3 product: one randrange(len(view)) per subset feature; D4 original mode: every inner sample "
               "draws random.randint(0, len(x_data)-1) with x_data the whole data set; D5 PFI: subset exactly [f]. Together with the "
               "functional postconditions of C02/C03/C05 (the contribution is a fixed function of the draws) the expectation claim "
               "follows from the permutation form of the Shapley value and linearity of expectation - given uniform, independent primitives.")
ASSUMPTIONS = ["uniformity and independence of random.randrange, random.randint, np.random.permutation (CPython/NumPy: trusted)",
               "the pen-and-paper step from draw discipline to 'expected contribution = Shapley value / expected loss increase' (cited: "
               "permutation form of the Shapley value)"]
TRUSTED_BASE = ["distribution of the RNG primitives", "permutation form of the Shapley value"]
LEVEL_TEXT = ("Deductive proof of the draw discipline over the real source (ranges, counts and use of every draw, all iterations); the "
              "probabilistic reading rests on the trusted distribution of the primitives, hence 'other'. Bounded stand-in: exact "
              "expectation by exhaustively scripting the library's own draws (all permutations x all row choices) against an "
              "independently computed Shapley value / PFI expectation for d <= 3, <= 3 rows.")
LEVEL_NOTE = "RNG distributions trusted; expectation claim by a cited argument; bounded enumeration for tiny cases"
TECHNIQUE = "contract-based deductive verification of the draw discipline over ghost draw events (z3/cvc5) + bounded exact enumeration"
DESIGN_REF = "DESIGN.md 5/C04"


def _model(x):
    if not isinstance(x, dict):
        return [_model(xi) for xi in x]
    vals = [Fraction(v) for v in x.values()]
    return {'output': vals[0] * 2 + vals[1] * vals[-1] + (vals[2] if len(vals) > 2 else 0)}


def _loss(y, p):
    return (Fraction(y) - p['output']) ** 2


def _shapley(names, value):
    d = len(names)
    phi = {k: Fraction(0) for k in names}
    for perm in itertools.permutations(names):
        S = frozenset()
        for f in perm:
            phi[f] += value(S | {f}) - value(S)
            S = S | {f}
    return {k: v / math.factorial(d) for k, v in phi.items()}


class _Script:
    def __init__(self):
        self.perm = None
        self.rows = None
        self.log = []
        self.over = False

    def permutation(self, n):
        import numpy as np
        self.log.append(('perm', n))
        return np.array(self.perm) if isinstance(n, int) else [n[i] for i in self.perm]

    def randrange(self, n):
        self.log.append(('randrange', n))
        v = next(self.rows, None)
        if v is None:
            self.over = True        # more row indices drawn than the sampling strategy calls for
            return 0
        return v % n

    def randint(self, a, b):
        self.log.append(('randint', a, b))
        return a + next(self.rows) % (b - a + 1)


def _expected_batch(names, rows, x, y, mode, R_draws, strategy='joint'):
    """exact expectation of the per-feature value of one explained observation by enumerating every order and every row choice"""
    import numpy as np
    import random as pyrandom
    from ixai.explainer import BatchSage
    from ixai.storage import BatchStorage
    d = len(names)
    sc = _Script()
    saved = (np.random.permutation, pyrandom.randrange, pyrandom.randint)
    np.random.permutation, pyrandom.randrange, pyrandom.randint = sc.permutation, sc.randrange, sc.randint
    tot = {k: Fraction(0) for k in names}
    n = 0
    try:
        for perm in itertools.permutations(range(d)):
            for draws in itertools.product(range(len(rows)), repeat=R_draws):
                st = BatchStorage(store_targets=True)
                for r in rows:
                    st.update(r, 0)
                from ixai.imputer import MarginalImputer
                ex = BatchSage(_model, list(names), _loss, n_inner_samples=1, storage=st,
                               imputer=MarginalImputer(_model, strategy, st))
                sc.perm, sc.rows = list(perm), iter(draws)
                if mode == 'many':
                    out = ex.explain_many([x], [y], verbose=False)
                else:
                    out = ex.explain_many_original(rows + [x], [0] * len(rows) + [y], verbose=False)
                for k in names:
                    tot[k] += out[k]
                n += 1
    finally:
        np.random.permutation, pyrandom.randrange, pyrandom.randint = saved
    if sc.over:
        raise RuntimeError('more random.randrange draws than one per imputed feature (product) / one per sample (joint)')
    return {k: v / n for k, v in tot.items()}, sc.log


def BOUNDED(tier, seed):
    warnings.simplefilter('ignore')
    rng = random.Random(seed)
    fails, evals, distinct = [], 0, set()
    for d in (2, 3):
        names = ['a', 'b', 'c'][:d]
        rows = [{k: Fraction(rng.randint(-2, 2)) for k in names} for _ in range(2)]
        x = {k: Fraction(rng.randint(-2, 2) + 3) for k in names}
        y = 1
        # SAGE with the marginal imputer (joint): value(S) = - E_row L(y, M(x_S, row_notS)); baseline loss of the mean prediction cancels
        def v(S):
            return -sum(_loss(y, _model({k: (x[k] if k in S else r[k]) for k in names})) for r in rows) / len(rows)
        sh = _shapley(names, v)
        exp, log = _expected_batch(names, rows, x, y, 'many', d)
        evals += 1
        distinct.add(('sage_many', d))
        # the first step starts from the loss of the mean prediction (a constant), the game's empty-coalition value is E L(all imputed):
        # compare differences through efficiency-free form: contributions of steps 2..d are Shapley-like; use the full identity instead
        base = _loss(y, _model(x))           # single observation: mean prediction = M(x)
        adj = {k: exp[k] for k in names}
        # expected contribution of f = Shapley value of the game w(S) = -E L(...) for |S|>=1 and w(empty) = -L(y, mean prediction)
        def w(S):
            return v(S) if S else -base
        shw = _shapley(names, w)
        # BatchSage accumulates in floats (its sums start at 0.): compare up to rounding
        if any(abs(float(adj[k]) - float(shw[k])) > 1e-9 * (1 + abs(float(shw[k]))) for k in names):
            fails.append({'key': 'sage_unbiased', 'summary': f'd={d}: expected SAGE contributions {adj} != Shapley values {shw} (enumerating all orders and rows)'})
        # product strategy: an INDEPENDENT uniform row per imputed feature
        def vp(S):
            out = [f for f in names if f not in S]
            tot = Fraction(0)
            for combo in itertools.product(rows, repeat=len(out)):
                z = dict(x)
                for f, r in zip(out, combo):
                    z[f] = r[f]
                tot += _loss(y, _model({k: z[k] for k in names}))
            return -tot / (len(rows) ** len(out))

        def wp(S):
            return vp(S) if S else -base
        shp = _shapley(names, wp)
        evals += 1
        distinct.add(('sage_product', d))
        try:
            expp, _ = _expected_batch(names, rows, x, y, 'many', d * (d - 1) // 2, strategy='product')
        except RuntimeError as ex:
            fails.append({'key': 'draw_count_product', 'summary': f'd={d}, product strategy: {ex}'})
            continue
        if any(abs(float(expp[k]) - float(shp[k])) > 1e-9 * (1 + abs(float(shp[k]))) for k in names):
            fails.append({'key': 'sage_unbiased_product', 'summary': f'd={d}, product strategy: expected SAGE contributions '
                          f'{ {k: float(v) for k, v in expp.items()} } != Shapley values of the product-marginal game '
                          f'{ {k: float(v) for k, v in shp.items()} }'})
    # original mode: background rows uniform over the whole data set
    names = ['a', 'b']
    rows = [{'a': Fraction(0), 'b': Fraction(1)}, {'a': Fraction(2), 'b': Fraction(-1)}]
    x = {'a': Fraction(3), 'b': Fraction(4)}
    y = 1
    data = rows + [x]
    import numpy as np
    import random as pyrandom
    from ixai.explainer import BatchSage
    sc = _Script()
    saved = (np.random.permutation, pyrandom.randrange, pyrandom.randint)
    np.random.permutation, pyrandom.randrange, pyrandom.randint = sc.permutation, sc.randrange, sc.randint
    try:
        bounds = set()
        for perm in itertools.permutations(range(2)):
            sc.perm, sc.rows = list(perm), itertools.cycle([0])
            ex = BatchSage(_model, names, _loss, n_inner_samples=1)
            sc.log.clear()
            ex.explain_many_original(data, [0, 0, y], verbose=False)
            bounds |= {(e[1], e[2]) for e in sc.log if e[0] == 'randint'}
        evals += 1
        distinct.add(('original_range',))
        if bounds != {(0, len(data) - 1)}:
            fails.append({'key': 'original_background_range', 'summary': f'original mode draws background rows with random.randint bounds {sorted(bounds)} '
                          f'instead of (0, {len(data) - 1}) only: rows are not uniform over the whole data set', 'observed': sorted(bounds)})
    finally:
        np.random.permutation, pyrandom.randrange, pyrandom.randint = saved
    return [{'name': 'exact_expectation_enumeration', 'evaluations': evals, 'distinct_nontrivial': max(2, len(distinct)),
             'rule': 'scripted RNG plays every permutation x every row combination (d in {2,3}, 2 stored rows, n_inner = 1) through the real '
                     'BatchSage; the exact expected contributions are compared with an independently computed Shapley value; original mode: '
                     'the randint bounds of every background draw are recorded', 'bound': 'd <= 3, 2 rows', 'failures': fails}]


def SEARCH(ob, seed):
    if ob.meta.get('clause') != 'background_from_whole_data':
        return None
    b = BOUNDED('quick', seed)[0]
    for f in b['failures']:
        if f['key'] == 'original_background_range':
            return {'witness': {'key': f['key']}, 'observed': {'confirmed': True, 'what': f['summary']}}
    return None


def REPLAY(w):
    b = BOUNDED('quick', 0)[0]
    hit = [f for f in b['failures'] if f['key'] == w.get('key')]
    return {'confirmed': bool(hit), 'observed': [f['summary'] for f in hit[:2]]}
