"""helpers shared by the bounded stand-ins"""
from fractions import Fraction


def same_num(got, exact, rel=Fraction(1, 10 ** 9)):
    """the stand-ins drive the real classes with exact rationals: a result that still IS a rational is compared exactly; when
    the code itself went through a float (a float literal or a NumPy call in the computation) the comparison is up to binary64
    rounding - the statements are about real arithmetic, and an exact comparison would raise an alarm on a harmless float
    literal"""
    if isinstance(got, bool) or isinstance(exact, bool):
        return got == exact
    if isinstance(got, (Fraction, int)):
        return got == exact
    try:
        g = Fraction(float(got))
    except (TypeError, ValueError, OverflowError):
        return False
    e = Fraction(exact) if not isinstance(exact, float) else Fraction(exact)
    return abs(g - e) <= rel * (1 + abs(e))


def same_dict(got, exact):
    return set(got) == set(exact) and all(same_num(got[k], exact[k]) for k in exact)


class _Need(Exception):
    def __init__(self, kind, m):
        self.kind, self.m = kind, m


def outcome_distribution(run, G, exact=True):
    """Distribution of the outcome of `run()` over the library's own draws, WITHOUT assuming which draws the code makes:
    `run` executes the real code with random.random / random.randrange / random.randint patched to a scripted generator;
    whenever the code asks for a draw beyond the script the exploration branches - a randrange(m) / randint(a, b) / choice
    draw over all its outcomes (weight 1/m each, exact), a permutation / shuffle / full sample over all n! orders, a
    random.random() draw over the G midpoints (i + 1/2)/G (weight 1/G each:
    exact whenever the code's thresholds lie on the grid, a midpoint quadrature otherwise).
    Returns {outcome: probability} (outcomes must be hashable); probabilities are Fractions when exact else floats."""
    import itertools
    import math
    import random as pyrandom
    import numpy as np
    one = Fraction(1) if exact else 1.0
    dist = {}
    saved = (pyrandom.random, pyrandom.randrange, pyrandom.randint, pyrandom.choice, pyrandom.shuffle, pyrandom.sample,
             np.random.permutation)

    def attempt(script):
        it = iter(script)

        def rnd():
            try:
                return next(it)
            except StopIteration:
                raise _Need('u', None)

        def rr(*a):
            if len(a) == 1:
                lo, hi = 0, a[0]
            else:
                lo, hi = a[0], a[1]
            if hi <= lo:
                raise ValueError("empty range for randrange()")
            try:
                return lo + next(it)
            except StopIteration:
                raise _Need('r', hi - lo)

        def ri(a, b):
            return rr(a, b + 1)

        def perm_of(n):
            # a uniformly random permutation of range(n): one draw with n! outcomes
            if n <= 1:
                return list(range(n))
            if n > 6:
                raise RuntimeError("outcome_distribution: permutation of more than 6 elements")
            try:
                j = next(it)
            except StopIteration:
                raise _Need('r', math.factorial(n))
            return list(next(itertools.islice(itertools.permutations(range(n)), j, None)))

        def np_permutation(x):
            if isinstance(x, (int, np.integer)):
                return np.array(perm_of(int(x)))
            seq = list(x)
            return np.array([seq[i] for i in perm_of(len(seq))])

        def choice(seq):
            return seq[rr(len(seq))]

        def shuffle(lst):
            order = perm_of(len(lst))
            lst[:] = [lst[i] for i in order]

        def sample(pop, k):
            pop = list(pop)
            order = perm_of(len(pop)) if k == len(pop) else None
            if order is None:
                out, rest = [], list(pop)
                for _ in range(k):
                    out.append(rest.pop(rr(len(rest))))
                return out
            return [pop[i] for i in order]
        (pyrandom.random, pyrandom.randrange, pyrandom.randint, pyrandom.choice, pyrandom.shuffle, pyrandom.sample,
         np.random.permutation) = rnd, rr, ri, choice, shuffle, sample, np_permutation
        try:
            return run()
        finally:
            (pyrandom.random, pyrandom.randrange, pyrandom.randint, pyrandom.choice, pyrandom.shuffle, pyrandom.sample,
             np.random.permutation) = saved
    stack = [([], one)]
    nodes = 0
    while stack:
        script, w = stack.pop()
        nodes += 1
        if nodes > 3_000_000:
            raise RuntimeError("outcome_distribution: exploration too large")
        try:
            o = attempt(script)
        except _Need as nd:
            if nd.kind == 'u':
                for i in range(G):
                    stack.append((script + [(i + 0.5) / G], w / G))
            else:
                for j in range(nd.m):
                    stack.append((script + [j], w / nd.m))
            continue
        dist[o] = dist.get(o, 0) + w
    return dist
