"""C15 - explainer call contract: defaults, loss signature, names, evaluation budget."""
import copy
import random
import warnings

ID = 'C15'
LEVEL = 'proof'
CONTRACTS = ['contracts.explainer', 'contracts.batch']
_CALL = ['seen', 'budget', 'impute_calls', 'storage_last', 'result_is_property', 'args_unchanged', 'first_only_seeds',
         'count:storage_update', 'frame:feature_names', 'frame:_model_function', 'frame:_loss_function', 'frame:n_inner_samples',
         'single_feature_subset', 'complement_subset', 'calls', 'frame', 'loss_positional', 'loss_arity', 'model_positional']
CLOSURE = [
    {'fn': 'IncrementalPFI.__init__', 'clauses': ['fresh_state', 'cfg', 'tracker_kind', 'inv:*']},
    {'fn': 'IncrementalSage.__init__', 'clauses': ['fresh_state', 'cfg', 'tracker_kind', 'inv:*']},
    {'fn': 'IncrementalPFI.explain_one', 'clauses': _CALL},
    {'fn': 'IncrementalSage.explain_one', 'clauses': _CALL},
    {'fn': 'Explainer.importance_values'},
    {'fn': 'BatchSage.__init__', 'clauses': ['fresh_state', 'inv:*']},
    {'fn': 'IntervalSage.__init__', 'clauses': ['fresh_state', 'cfg', 'inv:*']},
    {'fn': 'BatchExplainer.explain_many', 'clauses': ['inv:keys', 'loss_positional', 'args_unchanged', 'frame:feature_names', 'result_is_field']},
    {'fn': 'BatchExplainer.explain_many_original', 'clauses': ['inv:keys', 'loss_positional', 'args_unchanged', 'frame:feature_names', 'result_is_field']},
    {'fn': 'BatchSage.explain_one', 'clauses': ['result_is_field', 'frame:feature_names', 'inv:keys']},
    {'fn': 'IntervalSage.explain_one', 'clauses': ['seen', 'result_is_field', 'frame:feature_names', 'inv:keys', 'count:storage_update']},
]
EXPLANATION = ("(a) every constructor with all optional parameters at their defaults (and every combination of given/omitted ones) ends "
               "without an exception; (b) call-shape obligation at every call site of the loss: positional, two arguments, no keyword; "
               "(c) feature names are opaque keys (str / int / float in any mixture, numbers embedded injectively): no exception stems "
               "from them and the importance values are keyed by exactly those names; (d) explain_one: seen+1, model evaluations = 0 on the "
               "first call else 1 + d*n (n the per-call override or the constructor value) with the marginal imputer, the storage is "
               "updated exactly once with (x, y) after every model/loss/imputer event or not at all, x / y / feature names unchanged, the "
               "result is the importance_values property.")
ASSUMPTIONS = ["feature names are pairwise distinct; n_inner_samples >= 1; smoothing_alpha in (0,1] when given",
               "np.random.permutation: permutation of the NumPy-coerced elements (a list mixing str with numbers becomes all-str) - "
               "trusted library contract probed natively by the bounded stand-in",
               "interface-level: the imputer's own preconditions hold (non-empty storage for MarginalImputer)"]
TRUSTED_BASE = ["NumPy coercion contract of np.random.permutation / permutation of range(n)", "callback model: M, L uninterpreted"]
LEVEL_TEXT = ("Deductive proof over the real constructors and explain_one bodies: absence of exceptions for every combination of "
              "defaults, call-shape of the loss, evaluation budget via ghost event counters through the loop invariants, event order "
              "of the storage update, frames. Bounded stand-in: the same contract evaluated at run time over the product explainer x "
              "name types x d x n_inner x update_storage.")
LEVEL_NOTE = "callbacks deterministic; imputer interface contract; NumPy coercion contract trusted but probed"
TECHNIQUE = "contract-based deductive verification with ghost event counters and call-shape obligations (z3/cvc5)"
DESIGN_REF = "DESIGN.md 5/C15"


class _Model:
    def __init__(self, names):
        self.names, self.calls = names, 0

    def __call__(self, x):
        if not isinstance(x, dict):
            self.calls += len(x)
            return [{'output': float(sum(v for v in xi.values()))} for xi in x]
        self.calls += 1
        return {'output': float(sum(v for v in x.values()))}


def _loss(y_true, y_pred):          # documented positional signature, deliberately unusual parameter names are fine too
    return (y_true - y_pred.get('output', 0)) ** 2


def _loss_odd(a, b):
    return abs(a - b.get('output', 0))


NAME_SETS = {'str': ['a', 'b', 'c'], 'int': [1, 2, 3], 'float': [0.5, 1.5, 2.5], 'mixed': ['a', 1, 2.5]}


def _stream(names, rng, n):
    return [({k: rng.randint(0, 5) for k in names}, rng.randint(0, 9)) for _ in range(n)]


def BOUNDED(tier, seed):
    from ixai.explainer import IncrementalPFI, IncrementalSage, BatchSage, IntervalSage
    from ixai.storage import BatchStorage
    rng = random.Random(seed)
    fails, evals, distinct = [], 0, set()

    def fail(key, summary, **kw):
        fails.append(dict(key=key, summary=summary, observed=summary, **kw))
    warnings.simplefilter('ignore')
    # (a) documented required arguments alone
    for cls in (IncrementalPFI, IncrementalSage, BatchSage, IntervalSage):
        evals += 1
        distinct.add(('ctor', cls.__name__))
        try:
            if cls in (BatchSage, IntervalSage):
                cls(model_function=_Model(['a']), feature_names=['a', 'b'], loss_function=_loss)
            else:
                cls(_Model(['a']), _loss, ['a', 'b'])
        except Exception as ex:   # noqa
            fail('ctor_' + cls.__name__, f"{cls.__name__}(model, loss, names) raised {ex!r}", cls=cls.__name__)
    # (b)(c)(d)
    for cname, mk in (('IncrementalPFI', lambda m, l, names, n: IncrementalPFI(m, l, names, n_inner_samples=n, smoothing_alpha=0.5)),
                      ('IncrementalSage', lambda m, l, names, n: IncrementalSage(m, l, names, n_inner_samples=n, smoothing_alpha=0.5)),
                      ('BatchSage', lambda m, l, names, n: BatchSage(m, names, l, n_inner_samples=n)),
                      ('IntervalSage', lambda m, l, names, n: IntervalSage(m, names, l, n_inner_samples=n, interval_length=2,
                                                                          storage_length=3))):
        for tname, names in NAME_SETS.items():
            for loss in (_loss, _loss_odd):
                for n in (1, 2):
                    evals += 1
                    distinct.add((cname, tname, loss.__name__, n))
                    m = _Model(names)
                    try:
                        ex = mk(m, loss, list(names), n)
                    except Exception as e:   # noqa
                        fail(f'ctor_{cname}', f"{cname} with {tname} names: constructor raised {e!r}")
                        continue
                    names_before = list(names)
                    random.seed(seed)
                    import numpy as np
                    np.random.seed(seed)
                    try:
                        for t, (x, y) in enumerate(_stream(names, rng, 4)):
                            xb, calls_before = copy.deepcopy(x), m.calls
                            kw = {'verbose': False} if cname in ('BatchSage', 'IntervalSage') else {}
                            over = (3 if t == 2 else None)
                            out = ex.explain_one(x, y, n_inner_samples=over, **kw)
                            if x != xb or list(ex.feature_names) != names_before:
                                fail(f'frame_{cname}', f"{cname}: explain_one modified x or the feature names")
                            if set(out) != set(names) and not (cname.startswith('Incremental') and t == 0 and out == {}):
                                fail(f'names_{cname}_{tname}', f"{cname} with {tname} names: importance keys {sorted(map(str, out))} != names")
                            if cname.startswith('Incremental'):
                                if out != ex.importance_values:
                                    fail(f'result_{cname}', f"{cname}: returned dict differs from importance_values")
                                exp = 0 if t == 0 else 1 + len(names) * (over or n)
                                if m.calls - calls_before != exp or ex.seen_samples != t + 1:
                                    fail(f'budget_{cname}', f"{cname} d={len(names)} n={over or n} call {t}: {m.calls - calls_before} model "
                                         f"evaluations (expected {exp}), seen_samples={ex.seen_samples}")
                    except Exception as e:   # noqa
                        key = 'loss_keyword' if 'keyword' in repr(e) else ('mixed_names' if tname == 'mixed' else 'explain')
                        fail(f'{key}_{cname}', f"{cname} with {tname} names, loss {loss.__name__}: explain_one raised {e!r}")
    # storage update after the explanation: the observation is never part of its own background
    for cname, cls in (('IncrementalPFI', IncrementalPFI), ('IncrementalSage', IncrementalSage)):
        class Spy(BatchStorage):
            def __init__(self):
                super().__init__(store_targets=False)
                self.log = []

            def update(self, x, y=None):
                self.log.append(('update', x))
                super().update(x, y)

            def get_data(self):
                self.log.append(('read', len(self._storage_x)))
                return super().get_data()
        # the very first call with update_storage=False: nothing is stored (the storage stays empty)
        st0 = Spy()
        ex0 = cls(_Model(['a', 'b']), _loss, ['a', 'b'], storage=st0, smoothing_alpha=0.5)
        evals += 1
        distinct.add((cname, 'storage', 'first_call_no_update'))
        ex0.explain_one(*_stream(['a', 'b'], rng, 1)[0], update_storage=False)
        if any(e[0] == 'update' for e in st0.log) or len(st0) != 0:
            fail(f'storage_order_{cname}', f"{cname}: explain_one(update_storage=False) on an empty storage stored the observation")
        for upd in (True, False):
            st = Spy()
            m = _Model(['a', 'b'])
            ex = cls(m, _loss, ['a', 'b'], storage=st, smoothing_alpha=0.5)
            xs = _stream(['a', 'b'], rng, 3)
            ex.explain_one(*xs[0])
            for x, y in xs[1:]:
                st.log.clear()
                evals += 1
                distinct.add((cname, 'storage', upd))
                ex.explain_one(x, y, update_storage=upd)
                ups = [i for i, e in enumerate(st.log) if e[0] == 'update']
                reads = [i for i, e in enumerate(st.log) if e[0] == 'read']
                ok = (len(ups) == 1 and st.log[ups[0]][1] is x and all(r < ups[0] for r in reads)) if upd else not ups
                if not ok:
                    fail(f'storage_order_{cname}', f"{cname} update_storage={upd}: storage events {[(e[0]) for e in st.log]}")
    return [{'name': 'call_contract_runtime', 'evaluations': evals, 'distinct_nontrivial': len(distinct),
             'rule': 'explainer class x name types {str,int,float,mixed} x two positional losses x n_inner {1,2} + per-call override x 4-step '
                     'streams; default constructors; spy storage for the update order; distinct = configuration tuples',
             'bound': '4 observations, 3 features', 'failures': fails}]


def SEARCH(ob, seed):
    b = BOUNDED('quick', seed)[0]
    want = {'no_exception:TypeError': 'ctor_', 'loss_positional': 'loss_keyword', 'no_exception:KeyError': 'mixed_names'}
    pre = want.get(ob.meta.get('clause'))
    cls = (ob.meta.get('function') or '').split('.')[0]
    for f in b['failures']:
        if pre and f['key'].startswith(pre) and (cls in f['key'] or pre == 'loss_keyword'):
            return {'witness': {'key': f['key'], 'summary': f['summary']}, 'observed': {'confirmed': True, 'what': f['summary']}}
    return None


def REPLAY(w):
    b = BOUNDED('quick', 0)[0]
    hit = [f for f in b['failures'] if f['key'] == w.get('key')]
    return {'confirmed': bool(hit), 'observed': [f['summary'] for f in hit[:2]]}
