"""C10 - Welford and exponential-smoothing trackers equal their closed forms always."""
import random
from fractions import Fraction

import z3
from pyvc import verify, spec, symex, replay
from pyvc.sym import SNum, TObj
from pyvc.spec import ObjView

ID = 'C10'
LEVEL = 'proof'
CONTRACTS = ['contracts.trackers']
CLOSURE = [
    {'fn': 'WelfordTracker.__init__'}, {'fn': 'WelfordTracker.update'},
    {'fn': 'Tracker.var'}, {'fn': 'Tracker.std'}, {'fn': 'Tracker.mean'},
    {'fn': 'ExponentialSmoothingTracker.__init__'}, {'fn': 'ExponentialSmoothingTracker.update'},
    {'fn': 'Tracker.__call__'}, {'fn': 'Tracker.get'},
]
LEAN = ['welford_mean_closed', 'var_identity', 'es_closed', 'step_linear']
EXPLANATION = ("Invariant rule over the stream: __init__ establishes, update preserves, for symbolic state, value and alpha "
               "executed through the shipped update code: N*mean = S1, N*M2 = N*S2 - S1^2, M2 >= 0, lo <= mean <= hi, "
               "ES value = reference recursion, value within the hull of 0 and the inputs; var/std/mean getters against "
               "the ghost sums; linearity as a corollary over the contract of update. Closed forms of the recurrences in Lean.")
ASSUMPTIONS = ["A1: floats are treated as reals (rounding is the subject of C20)",
               "A3: no external writes to tracker fields between calls",
               "A9: the invariant rule over histories (init establishes / update preserves) is the standard meta-argument"]
TRUSTED_BASE = ["lean 4.33 + Mathlib (closed forms: welford_mean_closed, var_identity, es_closed, step_linear)"]


def _linear(run):
    """update is linear in (state, input): three trackers in lock-step, z = a*x + b*y before => after"""
    x = verify.fresh_object(run, 'Tracker', 'x')
    y = verify.fresh_object(run, 'Tracker', 'y')
    z = verify.fresh_object(run, 'Tracker', 'z')
    a, b, vx, vy = z3.Reals('a b vx vy')
    vx_, vy_ = SNum(vx), SNum(vy)
    X, Y, Z = ObjView(x), ObjView(y), ObjView(z)
    run.assume(X.kind == Y.kind, Y.kind == Z.kind, X.alpha == Y.alpha, Y.alpha == Z.alpha, X.N == Y.N, Y.N == Z.N,
               Z.tracked_value == a * X.tracked_value + b * Y.tracked_value)
    up = spec.FUNCS['Tracker.update']
    run.call_contract(up, x, [vx_], {})
    run.call_contract(up, y, [vy_], {})
    run.call_contract(up, z, [SNum(a * vx + b * vy)], {})
    run.oblige('Tracker.update/corollary/linear', Z.tracked_value == a * X.tracked_value + b * Y.tracked_value,
               kind='corollary', clause='linear', function='Tracker.update')
    run.oblige('Tracker.update/corollary/linear/canary', False, canary=True, kind='canary', clause='canary')


def EXTRA_OBLIGATIONS(tier):
    return verify.lemma_obligations('Tracker.update', _linear)


# ---- replay of solver counterexamples on the real classes ------------------------------------------------
_REAL = {'WelfordTracker': ('ixai.utils.tracker.welford.WelfordTracker', ['N', 'tracked_value', 'sum_squares']),
         'ExponentialSmoothingTracker': ('ixai.utils.tracker.exponential_smoothing.ExponentialSmoothingTracker',
                                         ['N', 'tracked_value', 'alpha']),
         'Tracker': ('ixai.utils.tracker.welford.WelfordTracker', ['N', 'tracked_value', 'sum_squares'])}


def DECODE(ob, model):
    w = replay.decode_basic(ob, model)
    fn = w['function'] or ''
    if fn.split('.')[0] not in _REAL or fn.endswith('__init__') or ob.meta.get('kind') == 'corollary':
        return None
    return w


def REPLAY(w):
    cls, meth = w['function'].split('.')
    real, fields = _REAL[cls]
    return replay.replay_scalar(w, real, fields, meth)


# ---- bounded stand-in: the closed forms as a run-time oracle on the real classes, exact arithmetic -----------
def _streams(tier, seed):
    rng = random.Random(seed)
    vals = [Fraction(-3), Fraction(0), Fraction(1, 2), Fraction(5), Fraction(-7, 3)]
    out = []
    import itertools
    for n in range(0, 4):
        out += [list(t) for t in itertools.product(vals[:4], repeat=n)]
    # a value equal to the running mean (leaves the sum of squares unchanged while the count grows)
    out += [[Fraction(1), Fraction(3), Fraction(2)], [Fraction(0), Fraction(4), Fraction(2), Fraction(2), Fraction(7)],
            [Fraction(5), Fraction(-3), Fraction(1), Fraction(1)]]
    for _ in range(60 if tier == 'quick' else 600):
        n = rng.randint(4, 40)
        out.append([Fraction(rng.randint(-50, 50), rng.randint(1, 7)) for _ in range(n)])
    # the same statement at very small and very large magnitudes (closed forms are homogeneous in the inputs)
    for base in list(out[-6:]):
        for scale in (Fraction(1, 10 ** 18), Fraction(1, 10 ** 9), Fraction(10 ** 12)):
            out.append([v * scale for v in base])
    return out


def _same(got, exact, scale):
    """exact when the class computed in exact arithmetic (Fractions in, Fractions out); when the code itself goes through a
    float (a float literal in the update) the comparison is up to binary64 rounding RELATIVE TO THE MAGNITUDE OF THE INPUTS
    (scale = max |input|, or its square for variances) - the statement is about real arithmetic"""
    if isinstance(got, (Fraction, int)) and not isinstance(got, bool):
        return got == exact
    return abs(Fraction(float(got)) - exact) <= Fraction(1, 10 ** 9) * scale


def _within(lo, got, hi):
    if isinstance(got, (Fraction, int)):
        return lo <= got <= hi
    tol = Fraction(1, 10 ** 9) * max(abs(lo), abs(hi))
    return lo - tol <= Fraction(float(got)) <= hi + tol


def BOUNDED(tier, seed):
    from ixai.utils.tracker.welford import WelfordTracker
    from ixai.utils.tracker.exponential_smoothing import ExponentialSmoothingTracker
    fails, evals, distinct = [], 0, set()
    for s in _streams(tier, seed):
        w = WelfordTracker()
        for i, v in enumerate(s):
            w.update(v)
            pre = s[:i + 1]
            evals += 1
            distinct.add(tuple(pre))
            mean = sum(pre) / len(pre)
            var = sum((x - mean) ** 2 for x in pre) / len(pre)
            sc = max([abs(x) for x in pre] + [Fraction(0)])
            ok = (_same(w.mean, mean, sc) and _same(w.var, var, sc * sc) and w.N == len(pre) and _within(min(pre), w.mean, max(pre))
                  and abs(float(w.std) - float(var) ** 0.5) <= 1e-9 * (1 + float(var) ** 0.5))
            if not ok:
                fails.append({'key': 'welford', 'summary': f'WelfordTracker differs from the closed form on {pre}',
                              'stream': [str(x) for x in pre],
                              'observed': {'mean': str(w.mean), 'var': str(w.var), 'N': w.N,
                                           'expected_mean': str(mean), 'expected_var': str(var)}})
                break
        for alpha in (Fraction(0), Fraction(1, 3), Fraction(1), Fraction(1, 1000)):
            e = ExponentialSmoothingTracker(alpha)
            for i, v in enumerate(s):
                e.update(v)
                pre = s[:i + 1]
                n = len(pre)
                evals += 1
                closed = sum(alpha * (1 - alpha) ** (n - 1 - j) * pre[j] for j in range(n))
                ok = _same(e.get(), closed, max([abs(x) for x in pre] + [Fraction(0)])) and e.N == n and _within(min([0] + pre), e.get(), max([0] + pre))
                if not ok:
                    fails.append({'key': 'es', 'summary': f'ExponentialSmoothingTracker({alpha}) differs on {pre}',
                                  'stream': [str(x) for x in pre], 'alpha': str(alpha),
                                  'observed': {'value': str(e.get()), 'expected': str(closed), 'N': e.N}})
                    break
    return [{'name': 'closed_forms_exact', 'evaluations': evals, 'distinct_nontrivial': len(distinct),
             'rule': 'all streams of length <= 3 over 4 rationals plus seeded random rational streams (length 4..40); '
                     'exact Fraction arithmetic through the real classes; distinct = distinct stream prefixes',
             'bound': 'stream length <= 40', 'failures': fails}]

LEVEL_TEXT = ("Deductive proof over the real tracker source: every obligation of __init__/update/var/std/mean (invariant "
              "established and preserved for symbolic state, input and alpha) is discharged by z3/cvc5 on every run; closed "
              "forms of the recurrences are Lean theorems re-checked on every run. Proof is the right level because the "
              "statement itself asks for induction on the stream length over the shipped update code.")
LEVEL_NOTE = ("Floats treated as reals (A1); SMT solvers, the pyvc encoding and Lean/Mathlib trusted; the bounded run-time "
              "oracle (exact rationals through the real classes) is a stand-in only and not counted as proved.")
TECHNIQUE = "contract-based deductive verification: AST->SMT VCs over the real source (z3/cvc5) + Lean lemmas"
DESIGN_REF = "DESIGN.md 5/C10"
