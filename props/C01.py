"""C01 - incremental SAGE values always sum to the explained loss (efficiency)."""
import random
import warnings
from fractions import Fraction

from props._util import same_num

ID = 'C01'
LEVEL = 'proof'
CONTRACTS = ['contracts.explainer']
CLOSURE = [
    {'fn': 'IncrementalSage.__init__', 'clauses': ['inv:Eff', 'inv:lockstep', 'inv:imp_dom', 'inv:imp_dom_N', 'inv:same_model',
                                                   'inv:counts', 'fresh_state', 'tracker_kind']},
    {'fn': 'IncrementalSage.explain_one', 'clauses': ['inv:Eff', 'inv:lockstep', 'inv:imp_dom', 'inv:imp_dom_N', 'inv:same_model',
                                                      'inv:counts', 'inv:names_distinct', 'step:*', 'cut:*', 'telescoping', 'tail',
                                                      'remaining', 'contrib_dom', 'perm_onto', 'perm_distinct', 'perm_names',
                                                      'importance_step', 'trackers', 'first_only_seeds']},
    {'fn': 'Explainer.explained_loss'}, {'fn': 'Explainer.marginal_loss'}, {'fn': 'Explainer.model_loss'},
    {'fn': 'Explainer.importance_values'},
    {'fn': '_get_mean_model_output', 'clauses': ['const_mean', 'labels']},
    {'fn': 'MultiValueTracker.update', 'clauses': ['pointwise', 'count', 'keys_monotone', 'inv:*']},
    {'fn': 'MultiValueTracker.get'}, {'fn': 'MultiValueTracker.__call__'},
    {'fn': 'WelfordTracker.update', 'clauses': ['lin', 'count', 'kind_const', 'inv:N_nonneg', 'inv:w_zero', 'returns_self']},
    {'fn': 'ExponentialSmoothingTracker.update', 'clauses': ['lin', 'count', 'kind_const', 'inv:N_nonneg', 'inv:w_zero', 'returns_self']},
    {'fn': 'MarginalImputer.impute', 'clauses': ['empty_identity', 'count']},
    {'fn': 'DefaultImputer.impute', 'clauses': ['empty_identity', 'count']},
]
LEAN = ['msum_linear', 'msum_insert', 'msum_update', 'msum_empty', 'ssum_const', 'step_linear']
EXPLANATION = ("Class invariant Eff: msum(importance values over the feature names) = marginal-loss tracker value - model-loss tracker "
               "value, with lock-step (all trackers copies of one base tracker: same kind, alpha, N). Established by __init__, preserved "
               "by explain_one on every normal path for every permutation drawn, every imputer result, every n_inner >= 1, both tracker "
               "kinds and any alpha: loop invariant of the chain (credits so far telescope to l0 - current loss; the last step imputes "
               "nothing, so the chain ends at the model's own loss), the trackers' common linear step (Tracker.update.lin) and the Lean "
               "lemma msum_linear. The public getters: sum(importance_values) = explained_loss (the direction offset cancels).")
ASSUMPTIONS = ["A1: floats as reals: 'exactly when losses are exact numbers' is the real-number theorem; 'to within rounding' is not decided here",
               "A2: model and loss deterministic; a user-supplied imputer satisfies the interface clause empty_identity and evaluates the same model",
               "feature names pairwise distinct, at least one feature, n_inner_samples >= 1"]
TRUSTED_BASE = ["lean 4.33 + Mathlib (msum_linear, msum_insert/update, ssum_const)", "np.random.permutation(n): a permutation of range(n)"]
LEVEL_TEXT = ("Deductive proof of the efficiency invariant over the real IncrementalSage source (constructor establishes, explain_one "
              "preserves, getters expose), for every stream prefix by the invariant rule, every configuration and every outcome of the "
              "random draws; callee steps through proved contracts (trackers, MultiValueTracker, imputers, mean of predictions).")
LEVEL_NOTE = "floats as reals; model/loss deterministic; user imputers must satisfy the interface contract; Lean lemma mirror"
TECHNIQUE = "contract-based deductive verification: class invariant + loop invariant + proof steps, AST->SMT VCs (z3/cvc5), Lean lemmas"
DESIGN_REF = "DESIGN.md 5/C01"


def _run_stream(dynamic, alpha, n_inner, names, seed, steps, strategy='joint', bigger=False, weak=False):
    import numpy as np
    from ixai.explainer import IncrementalSage
    from ixai.storage import UniformReservoirStorage, GeometricReservoirStorage
    from ixai.imputer import MarginalImputer
    rng = random.Random(seed)
    random.seed(seed)
    np.random.seed(seed)

    def model(x):
        # weak: the last feature has a tiny (but non-zero) weight - the chain's last steps then change the loss only slightly
        s = sum(Fraction(v) * (Fraction(1, 10 ** 6) if weak and i == len(x) - 1 else i + 1) for i, v in enumerate(x.values()))
        return {'p': s, 'q': Fraction(2) - 3 * s} if len(names) > 2 else {'output': s}      # raw scores: the labels do not sum to one

    def loss(y, p):
        return sum((Fraction(y) - v) ** 2 for v in p.values())
    st = (GeometricReservoirStorage(size=4) if dynamic else UniformReservoirStorage(size=4))
    kw = {}
    if strategy != 'default':
        kw = dict(storage=st, imputer=MarginalImputer(model, strategy, st))
    ex = IncrementalSage(model, loss, list(names), smoothing_alpha=alpha, n_inner_samples=n_inner, dynamic_setting=dynamic,
                         loss_bigger_is_better=bigger, **kw)
    out = []
    for t in range(steps):
        x = {k: Fraction(rng.randint(-3, 3), rng.choice([1, 2])) for k in names}
        y = rng.randint(-2, 2)
        ex.explain_one(x, y)
        tot = sum(ex.importance_values.values())
        exact = ex._marginal_loss_tracker.get() - ex._model_loss_tracker.get()     # exact rationals (the public getters add a float offset)
        out.append((t, tot, exact, ex.explained_loss))
    return out


def BOUNDED(tier, seed):
    warnings.simplefilter('ignore')
    fails, evals, distinct = [], 0, set()
    cfgs = []
    for dynamic in (False, True):
        for alpha in (Fraction(1, 2), Fraction(1), Fraction(1, 1000)):
            for n_inner in (1, 3):
                for names in (['a'], ['a', 'b'], ['a', 1, 2.5]):
                    for strategy in ('joint', 'product', 'default'):
                        cfgs.append((dynamic, alpha, n_inner, names, strategy))
    rng = random.Random(seed)
    if tier == 'quick':
        cfgs = rng.sample(cfgs, 24)
    cfgs = [c + (False,) for c in cfgs] + [(dyn, Fraction(1, 2), 1, ['a', 'b'], strat, True) for dyn in (False, True) for strat in ('joint', 'default')]
    for (dynamic, alpha, n_inner, names, strategy, weak) in cfgs:
        try:
            res = _run_stream(dynamic, alpha, n_inner, names, seed, 6 if tier == 'quick' else 12, strategy, bigger=(n_inner == 3), weak=weak)
        except Exception as ex:   # noqa
            fails.append({'key': 'raised', 'summary': f'IncrementalSage run raised {ex!r} for dynamic={dynamic} alpha={alpha} n={n_inner} names={names}'})
            continue
        for t, tot, expl, diff in res:
            evals += 1
            distinct.add((dynamic, str(alpha), n_inner, str(names), strategy, weak, t))
            if not same_num(tot, expl) or abs(float(expl) - float(diff)) > 1e-9 * (1 + abs(float(expl))):
                fails.append({'key': 'efficiency', 'summary': f'sum of importances {tot} != explained loss {expl} after {t + 1} observations '
                              f'(dynamic={dynamic}, alpha={alpha}, n_inner={n_inner}, names={names}, imputer={strategy})',
                              'config': [dynamic, str(alpha), n_inner, [str(n) for n in names], strategy], 'observed': {'sum': str(tot), 'explained': str(expl)}})
                break
    return [{'name': 'efficiency_exact_rationals', 'evaluations': evals, 'distinct_nontrivial': len(distinct),
             'rule': 'IncrementalSage on seeded streams with exact rational model outputs and losses (Fractions through the real classes): '
                     '{static,dynamic} x alpha {1/2,1,1/1000} x n_inner {1,3} x names {1,2,3 mixed} x imputer {joint, product, default}; '
                     'identity checked exactly after every observation', 'bound': '12 observations, 3 features', 'failures': fails}]


def REPLAY(w):
    b = BOUNDED('quick', 0)[0]
    return {'confirmed': bool(b['failures']), 'observed': [f['summary'] for f in b['failures'][:2]]}
