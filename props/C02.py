"""C02 - incremental PFI is the running statistic of (mean imputed loss - original loss)."""
import random
import warnings
from fractions import Fraction

from props._util import same_num, same_dict

ID = 'C02'
LEVEL = 'proof'
CONTRACTS = ['contracts.explainer']
CLOSURE = [
    {'fn': 'IncrementalPFI.__init__', 'clauses': ['fresh_state', 'cfg', 'tracker_kind', 'inv:*']},
    {'fn': 'IncrementalPFI.explain_one', 'clauses': ['pfi_importance', 'pfi_variance', 'first_only_seeds', 'no_other_keys', 'seen',
                                                     'pfi_dom', 'pfi_val', 'single_feature_subset', 'frame', 'calls', 'cut:*',
                                                     'inv:imp_dom', 'inv:counts', 'impute_calls']},
    {'fn': 'MultiValueTracker.update', 'clauses': ['pointwise', 'count', 'keys_monotone', 'inv:*']},
    {'fn': 'MultiValueTracker.get'}, {'fn': 'Explainer.importance_values'}, {'fn': 'Explainer.variances'},
    {'fn': 'WelfordTracker.update'}, {'fn': 'ExponentialSmoothingTracker.update'},
    {'fn': 'WelfordTracker.__init__'}, {'fn': 'ExponentialSmoothingTracker.__init__'},
    {'fn': 'MarginalImputer.impute#list', 'clauses': ['count', 'agree_outside', 'from_background']},
    {'fn': 'DefaultImputer.impute#list', 'clauses': ['count', 'agree_outside', 'from_defaults']},
]
LEAN = ['welford_mean_closed', 'es_closed', 'ssum_congr']
EXPLANATION = ("Postcondition of IncrementalPFI.explain_one over ghost call results: for seen >= 1 and every feature f the imputer is "
               "asked for the subset exactly [f] with n inner samples; PFI[f] = (1/n) sum_j L(y, preds_f[j]) - L(y, M(x)) (spec functions "
               "MEANLOSS/LOSSCOL written independently of the code); the importance trackers are stepped with PFI, the variance "
               "trackers with (PFI[f] - UPDATED importance[f])^2, through the per-key contract of MultiValueTracker and the step "
               "relation of the base tracker chosen by the mode (Welford = uniform mean, exponential smoothing with alpha started at 0; "
               "closed forms in Lean). First observation: nothing but the storage update. Corollary (ignored feature): if the model "
               "ignores f, every imputed input gives the original prediction (imputer clause agree_outside), so PFI[f] = 0.")
ASSUMPTIONS = ["A1 floats as reals; A2 deterministic model/loss; a user-supplied imputer satisfies the interface contract",
               "np.mean(list) = sum/len (trusted library contract)"]
TRUSTED_BASE = ["lean 4.33 + Mathlib (closed forms of the running statistics)", "np.mean library contract"]
LEVEL_TEXT = ("Deductive proof of the PFI postcondition against an independently written specification (mean loss of the inner "
              "predictions minus original loss; step of the configured running statistic; variance from the updated estimate) over the "
              "real source, all streams by the invariant rule, all configurations.")
LEVEL_NOTE = "floats as reals; imputer interface contract; Lean closed forms"
TECHNIQUE = "contract-based deductive verification with ghost call results and spec functions (z3/cvc5) + Lean closed forms"
DESIGN_REF = "DESIGN.md 5/C02"


def EXTRA_OBLIGATIONS(tier):
    """corollary over the contracts: a feature the model ignores has PFI contribution exactly zero"""
    import z3
    from pyvc import verify, sym
    from pyvc.pylib import InstT, PredT, MODEL, LOSS
    from pyvc.spec import FUNCS, ObjView
    from pyvc.sym import SNum, TList, TKey, SList
    from contracts.explainer import MEANLOSS, meanloss_axioms
    from pyvc import lemmas

    def body(run):
        imp = verify.fresh_object(run, 'Imputer', 'imp')
        x = run.fresh(InstT, 'x')
        f = z3.Const('f', sym.KeyS)
        y = z3.Const('y', sym.ValS)
        lossf = z3.Const('lossf', sym.FnS)
        n = z3.Int('n')
        run.assume(n >= 1)
        IMP = ObjView(imp)
        # the model ignores feature f: inputs that agree everywhere except at f give the same prediction
        z = z3.Const('ig!z', InstT.sort())
        k = z3.Const('ig!k', sym.KeyS)
        run.assume(z3.ForAll([z], z3.Implies(
            z3.ForAll([k], z3.Implies(k != f, z3.And(InstT.dom(z)[k] == InstT.dom(x.t)[k], InstT.val(z)[k] == InstT.val(x.t)[k]))),
            MODEL(IMP.model_function, z) == MODEL(IMP.model_function, x.t))))
        sub = run.make_list([sym.SKey(f)], TKey)
        preds = run.call_contract(FUNCS['Imputer.impute#list'], imp, [], {'feature_subset': sub, 'x_i': x, 'n_samples': SNum(n)})
        run.assume(*meanloss_axioms(lossf, y), *lemmas.ssum_const_axiom())
        run.oblige('IncrementalPFI.explain_one/corollary/ignored_feature_zero',
                   MEANLOSS(lossf, y, preds.t) - LOSS(lossf, y, MODEL(IMP.model_function, x.t)) == 0,
                   kind='corollary', clause='ignored_feature_zero', function='IncrementalPFI.explain_one')
        run.oblige('IncrementalPFI.explain_one/corollary/canary', False, canary=True, kind='canary', clause='canary')
    return verify.lemma_obligations('IncrementalPFI.explain_one', body)


def _reference(dynamic, alpha, stream, model, loss, names, recorded):
    """independent closed-form reference: running statistic of (mean imputed loss - original loss) from the recorded imputer results"""
    imp = {f: Fraction(0) for f in names}
    var = {f: Fraction(0) for f in names}
    out = []
    n_expl = 0
    for t, (x, y) in enumerate(stream):
        if t >= 1:
            n_expl += 1
            for f in names:
                preds = recorded[(t, f)]
                c = sum(loss(y, p) for p in preds) / len(preds) - loss(y, model(x))
                if dynamic:
                    imp[f] = (1 - alpha) * imp[f] + alpha * c
                    var[f] = (1 - alpha) * var[f] + alpha * (c - imp[f]) ** 2
                else:
                    imp[f] = imp[f] + (c - imp[f]) / n_expl
                    var[f] = var[f] + ((c - imp[f]) ** 2 - var[f]) / n_expl
        out.append((dict(imp) if t >= 1 else {}, dict(var) if t >= 1 else {}))
    return out


def BOUNDED(tier, seed):
    import numpy as np
    from ixai.explainer import IncrementalPFI
    from ixai.imputer import MarginalImputer, DefaultImputer
    from ixai.storage import UniformReservoirStorage, GeometricReservoirStorage
    warnings.simplefilter('ignore')
    rng = random.Random(seed)
    fails, evals, distinct = [], 0, set()
    for dynamic in (False, True):
        for alpha in (Fraction(1, 2), Fraction(1), Fraction(1, 8)):
            for n_inner in (1, 2):
                for names in (['a', 'b'], ['a', 1, 2.5]):
                    for strategy in ('joint', 'product', 'default'):
                        def model(x):
                            return {'output': sum(Fraction(v) * (i + 1) for i, (k, v) in enumerate(x.items()) if k != names[-1])}

                        def loss(y, p):
                            return (Fraction(y) - p['output']) ** 2
                        st = GeometricReservoirStorage(size=3) if dynamic else UniformReservoirStorage(size=3)
                        recorded = {}
                        cur = {'t': 0}

                        class Rec(DefaultImputer if strategy == 'default' else MarginalImputer):
                            def impute(self, feature_subset, x_i, n_samples=1):
                                r = super().impute(feature_subset, x_i, n_samples)
                                assert list(feature_subset) == [feature_subset[0]] and len(r) == n_samples
                                assert n_samples == (3 if cur['t'] == 2 else n_inner), 'number of inner samples requested'
                                recorded[(cur['t'], feature_subset[0])] = r
                                return r
                        imputer = Rec(model, values={k: Fraction(1) for k in names}) if strategy == 'default' else Rec(model, strategy, st)
                        ex = IncrementalPFI(model, loss, list(names), storage=st, imputer=imputer,
                                            smoothing_alpha=alpha, n_inner_samples=n_inner, dynamic_setting=dynamic)
                        random.seed(seed)
                        np.random.seed(seed)
                        stream = [({k: Fraction(rng.randint(-3, 3)) for k in names}, rng.randint(-2, 2)) for _ in range(5)]
                        got = []
                        try:
                            for t, (x, y) in enumerate(stream):
                                cur['t'] = t
                                # a per-call override of the number of inner samples on some steps
                                ex.explain_one(x, y, n_inner_samples=(3 if t == 2 else None))
                                got.append((dict(ex.importance_values), dict(ex.variances)))
                        except Exception as e:   # noqa
                            fails.append({'key': 'raised', 'summary': f'IncrementalPFI raised {e!r} (names={names})'})
                            continue
                        ref = _reference(dynamic, alpha, stream, model, loss, names, recorded)
                        for t in range(len(stream)):
                            evals += 1
                            distinct.add((dynamic, str(alpha), n_inner, str(names), strategy, t))
                            gi, gv = got[t]
                            if not same_dict(gi, ref[t][0]) or not same_dict(gv, ref[t][1]) or (t >= 1 and not same_num(gi[names[-1]], 0)):
                                fails.append({'key': 'pfi_reference', 'summary': f'PFI after {t + 1} observations: importance {got[t][0]} / variance '
                                              f'{got[t][1]} differ from the closed-form reference {ref[t]} (dynamic={dynamic}, alpha={alpha}, '
                                              f'n={n_inner}, names={names}, {strategy})'})
                                break
    return [{'name': 'pfi_closed_form_reference', 'evaluations': evals, 'distinct_nontrivial': len(distinct),
             'rule': 'IncrementalPFI with exact rationals; the imputer results are recorded and an independent reference (uniform mean / '
                     'exponential smoothing of mean imputed loss - original loss; variance from the updated estimate) is compared on every '
                     'prefix; the last feature is ignored by the model and must have importance exactly 0',
             'bound': '5 observations, 3 features', 'failures': fails}]


def REPLAY(w):
    b = BOUNDED('quick', 0)[0]
    return {'confirmed': bool(b['failures']), 'observed': [f['summary'] for f in b['failures'][:2]]}
