"""C14 - model wrappers give one canonical dict output form for single and batch input."""
import random
import warnings

ID = 'C14'
LEVEL = 'other'
CONTRACTS = ['contracts.wrappers']
CLOSURE = [
    {'fn': 'Wrapper.convert_arr_output_to_dict'},
    {'fn': 'NamedWrapper.convert_1d_input_to_arr'}, {'fn': 'NamedWrapper.convert_2d_input_to_arr'},
    {'fn': 'NamedWrapper.convert_arr_output_to_dict'},
    {'fn': 'SklearnWrapper.__call__#dict'}, {'fn': 'SklearnWrapper.__call__#list'},
    {'fn': 'RiverWrapper._extend_dict#dict'}, {'fn': 'RiverWrapper._extend_dict#num'}, {'fn': 'RiverWrapper._extend_dict#label'},
]
EXPLANATION = ("Proved over a stated ndarray model (ndim 0/1/2, dims, flat data, string flag; float(ndarray) as on the installed NumPy, "
               "probed on every run): convert_arr_output_to_dict gives {'output': value} for every size-one output (shapes (), (1,), "
               "(1,1)), {i: value_i} over the flattened output otherwise, ValueError for string content; RiverWrapper._extend_dict: dict "
               "passthrough, number -> {'output': float}, string label -> one-hot over the labels seen so far, the seen set only grows. "
               "With configured feature names (Wrapper.convert_1d/2d_input_to_arr, SklearnWrapper.__call__): the row the model receives "
               "has exactly the named features' values in the configured order - a function of the input dict AS A MAP, so key order "
               "and extra features cannot matter (obligation ordered_dict_keys_distinct: the names are pairwise distinct); a dict input "
               "yields the canonical dict of the model's prediction on that one row; a list input yields, in order, the canonical dict "
               "of each row of the model's batch output (loop invariant over the rows; the element-wise comprehension as a quantified "
               "definition). Bounded (not proved): wrappers without feature names (dict insertion order is then the order), "
               "batch = one-at-a-time for row-wise models, validate_model_function dispatch, RiverWrapper/TorchWrapper __call__, over "
               "output shapes, dtypes, sklearn estimators, river models and torch modules.")
ASSUMPTIONS = ["ndarray model; float(ndarray) semantics probed on the installed NumPy only",
               "dicts preserve insertion order (Python >= 3.7) - used for the dict comprehension over the feature names",
               "the prediction function is a deterministic function PF of the 2-d input array; np.asarray of a list of value lists is "
               "the matrix of those rows (dtype coercion of mixed string/number rows by NumPy is outside the model)",
               "unnamed input conversion / validate_model_function dispatch / torch conversions: bounded run-time checks only "
               "(type-name dispatch is outside the value model)",
               "'type name contains sklearn / river' characterises those libraries' estimators (exercised by the sweep)"]
TRUSTED_BASE = ["ndarray output model", "NumPy float() contract (probed)"]
LEVEL_TEXT = ("Output canonicalisation proved deductively over the real source against an ndarray model; the remaining clauses of the "
              "statement (input conversion, batch equivalence, dispatch over estimator classes) are decided only by a bounded run-time "
              "contract sweep - hence 'other', not 'proof'.")
LEVEL_NOTE = "ndarray model and probed NumPy contract trusted; several clauses bounded only"
TECHNIQUE = "contract-based deductive verification over an ndarray model (z3/cvc5) + bounded run-time contract sweep"
DESIGN_REF = "DESIGN.md 5/C14"


def _shape_cases():
    import numpy as np
    out = []
    for dt in (np.float64, np.float32, np.int64):
        out += [('()', np.array(2, dtype=dt)), ('(1,)', np.array([2], dtype=dt)), ('(1,1)', np.array([[2]], dtype=dt)),
                ('(3,)', np.array([1, 2, 3], dtype=dt)), ('(1,3)', np.array([[1, 2, 3]], dtype=dt)), ('(3,1)', np.array([[1], [2], [3]], dtype=dt))]
    # boolean single-valued predictions (a classifier trained on bool labels)
    out += [('()', np.array(True)), ('(1,)', np.array([True])), ('(1,1)', np.array([[False]]))]
    return out


def BOUNDED(tier, seed):
    import numpy as np
    warnings.simplefilter('ignore')
    from ixai.utils.wrappers import SklearnWrapper, RiverWrapper, TorchWrapper
    from ixai.utils.wrappers.base import Wrapper
    from ixai.utils.validators import validate_model_function
    rng = random.Random(seed)
    fails, evals, distinct = [], 0, set()

    def fail(key, summary):
        fails.append({'key': key, 'summary': summary, 'observed': summary})
    w = SklearnWrapper(lambda a: a)
    # 1. output canonicalisation
    for shape, arr in _shape_cases():
        evals += 1
        distinct.add(('shape', shape, str(arr.dtype)))
        try:
            out = w.convert_arr_output_to_dict(arr)
        except Exception as ex:   # noqa  (a numeric / boolean prediction is valid input)
            fail('size_one_output' if arr.size == 1 else 'vector_output', f'convert_arr_output_to_dict(shape {shape}, {arr.dtype}) raised {ex!r}')
            continue
        flat = arr.flatten()
        exp = {'output': float(flat[0])} if arr.size == 1 else {i: flat[i] for i in range(arr.size)}
        if set(out) != set(exp) or any(float(out[k]) != float(exp[k]) for k in exp):
            fail('size_one_output' if arr.size == 1 else 'vector_output', f'convert_arr_output_to_dict(shape {shape}, {arr.dtype}) = {out}, expected {exp}')
    try:
        w.convert_arr_output_to_dict(np.array('cat'))
        fail('string_output', 'string prediction did not raise ValueError')
    except ValueError:
        pass
    # 2. input conversion with feature names: order from the names, key order irrelevant, extra features dropped
    seen = []

    def f_rows(a):
        seen.append(np.array(a, dtype=float))
        return np.asarray(a, dtype=float).sum(axis=1) * 1.0
    names = ['b', 'a', 'c']
    wn = SklearnWrapper(f_rows, feature_names=names)
    x = {'a': 1.0, 'b': 20.0, 'c': 300.0, 'extra': 4000.0}
    perms = [dict(sorted(x.items(), reverse=r)) for r in (False, True)] + [{k: x[k] for k in ['c', 'extra', 'a', 'b']}]
    outs = []
    for xp in perms:
        seen.clear()
        outs.append(wn(xp))
        evals += 1
        distinct.add(('input_order', tuple(xp)))
        if [list(r) for r in seen[-1]] != [[x[k] for k in names]]:
            fail('input_conversion', f'model received {seen[-1].tolist()} for names {names} and input {xp}')
    if any(o != outs[0] for o in outs) or outs[0] != {'output': 321.0}:
        fail('input_conversion', f'results depend on the key order or on extra features: {outs}')
    # 2b. batch calls with feature names: every row is converted by name (rows may differ in key order / carry extra features)
    rows = [{'b': 1.0, 'a': 2.0, 'c': 3.0}, {'c': 6.0, 'a': 5.0, 'b': 4.0}, {'a': 8.0, 'extra': 1000.0, 'b': 7.0, 'c': 9.0},
            {'b': 10.0, 'a': 11.0, 'c': 12.0}]
    for order in (rows, rows[::-1], [rows[1], rows[0], rows[2]]):
        seen.clear()
        evals += 1
        distinct.add(('batch_named', tuple(tuple(r) for r in order)))
        try:
            got = wn(list(order))
            exp_matrix = [[r[k] for k in names] for r in order]
            if [list(map(float, r)) for r in seen[-1]] != exp_matrix or got != [{'output': float(sum(m))} for m in exp_matrix] \
                    or got != [wn(r) for r in order]:
                fail('batch_input_conversion', f'batch with differently ordered rows: model received {seen[-1].tolist()}, expected {exp_matrix}; '
                     f'result {got}')
        except Exception as ex:   # noqa
            fail('batch_input_conversion', f'batch with differently ordered rows / extra features raised {ex!r}')
    # 3. batch input = list of canonical dicts of the rows, equal to one-at-a-time calls for row-wise models
    for nout, f in (('scalar', lambda a: np.asarray(a, dtype=float).sum(axis=1)),
                    ('col', lambda a: np.asarray(a, dtype=float).sum(axis=1).reshape(-1, 1)),
                    ('vector', lambda a: np.stack([np.asarray(a, dtype=float).sum(axis=1), np.asarray(a, dtype=float)[:, 0]], axis=1))):
        wb = SklearnWrapper(f, feature_names=['a', 'b'])
        for n in (1, 2, 3):
            xs = [{'a': float(rng.randint(0, 5)), 'b': float(rng.randint(0, 5))} for _ in range(n)]
            evals += 1
            distinct.add(('batch', nout, n))
            batch = wb(xs)
            single = [wb(xi) for xi in xs]
            ok = isinstance(batch, list) and len(batch) == n and all(
                set(b) == set(s_) and all(abs(float(b[k]) - float(s_[k])) < 1e-12 for k in b) for b, s_ in zip(batch, single))
            if not ok or (nout != 'vector' and any(set(b) != {'output'} for b in batch)):
                fail('batch_conversion', f'{nout} model, batch of {n}: {batch} vs one-at-a-time {single}')
    # 4. river outputs
    rw = RiverWrapper(lambda x: x['v'])
    seq = [({'v': {'a': 0.2, 'b': 0.8}}, {'a': 0.2, 'b': 0.8}), ({'v': 3}, {'output': 3.0}), ({'v': 'cat'}, {'cat': 1.0}),
           ({'v': 'dog'}, {'cat': 0.0, 'dog': 1.0}), ({'v': 'cat'}, {'cat': 1.0, 'dog': 0.0}), ({'v': True}, {'output': 1.0})]
    for xin, exp in seq:
        evals += 1
        distinct.add(('river', str(xin)))
        got = rw(xin)
        if got != exp:
            fail('river_output', f'RiverWrapper on prediction {xin["v"]!r}: {got}, expected {exp}')
    if rw([{'v': 1}, {'v': 2}]) != [{'output': 1.0}, {'output': 2.0}]:
        fail('river_output', 'RiverWrapper batch path')
    # a batch of string labels = the one-at-a-time calls in order (each row one-hot over the labels seen SO FAR)
    labels = ['low', 'mid', 'low', 'high', 'mid']
    evals += 1
    distinct.add(('river_batch_labels',))
    one_by_one = RiverWrapper(lambda x: x['v'])
    exp_rows = [one_by_one({'v': l}) for l in labels]
    got_rows = RiverWrapper(lambda x: x['v'])([{'v': l} for l in labels])
    if got_rows != exp_rows:
        fail('river_output', f'RiverWrapper on a batch of labels {labels}: {got_rows}, one-at-a-time calls give {exp_rows}')
    # 5. validate_model_function dispatch
    from sklearn.linear_model import LinearRegression
    from sklearn.tree import DecisionTreeClassifier
    from river.linear_model import LinearRegression as RLR
    from river.tree import HoeffdingTreeClassifier
    import torch
    X = np.array([[0., 1.], [1., 0.], [1., 1.], [0., 0.]])
    lr = LinearRegression().fit(X, [1., 2., 3., 0.])
    dtc = DecisionTreeClassifier().fit(X, [0, 1, 1, 0])
    cands = [('sklearn predict', lr.predict, SklearnWrapper), ('sklearn predict_proba', dtc.predict_proba, SklearnWrapper),
             ('river predict_one', RLR().predict_one, RiverWrapper), ('river predict_proba_one', HoeffdingTreeClassifier().predict_proba_one, RiverWrapper),
             ('torch module', torch.nn.Linear(2, 1), TorchWrapper), ('torch vector module', torch.nn.Linear(2, 3), TorchWrapper)]
    if tier == 'thorough':
        from sklearn.utils import all_estimators
        from sklearn.datasets import make_classification
        Xc, yc = make_classification(n_samples=30, n_features=2, n_informative=2, n_redundant=0, random_state=0)
        for nm, E in all_estimators():
            try:
                e = E().fit(Xc, yc)
                if hasattr(e, 'predict'):
                    cands.append((f'sklearn {nm}.predict', e.predict, SklearnWrapper))
            except Exception:   # noqa
                continue
    for nm, fn_, W in cands:
        evals += 1
        distinct.add(('dispatch', nm))
        v = validate_model_function(fn_)
        if not isinstance(v, W):
            fail('dispatch', f'validate_model_function({nm}) returned {type(v).__name__}, expected {W.__name__}')
            continue
        if validate_model_function(v) is not v:
            fail('dispatch', f'validate_model_function re-wrapped a {W.__name__}')
        if W is not RiverWrapper:
            x1 = {'f0': 1.0, 'f1': 0.0}
            one = v(x1)
            many = v([x1, {'f0': 0.0, 'f1': 1.0}])
            exp_keys = {'output'} if nm in ('sklearn predict', 'torch module') or (nm.endswith('.predict')) else None
            if not isinstance(one, dict) or not isinstance(many, list) or len(many) != 2 or set(many[0]) != set(one) \
                    or any(abs(float(many[0][k]) - float(one[k])) > 1e-6 for k in one) or (exp_keys and set(one) != exp_keys):
                fail('wrapper_call', f'{nm}: single {one} vs batch {many}')
    plain = lambda x: {'output': 0.0}   # noqa
    if validate_model_function(plain) is not plain:
        fail('dispatch', 'a plain callable was not returned unchanged')
    return [{'name': 'wrapper_runtime_contract', 'evaluations': evals, 'distinct_nontrivial': len(distinct),
             'rule': 'output shapes ((),(1,),(1,1),(3,),(1,3),(3,1)) x dtypes; named input conversion under key permutations and extra features; '
                     'batch vs one-at-a-time for scalar/column/vector models; river dict/number/label sequence; validate_model_function over '
                     'sklearn / river / torch callables (thorough: every sklearn estimator with predict)', 'bound': 'finite sweep', 'failures': fails}]


def SEARCH(ob, seed):
    b = BOUNDED('quick', seed)[0]
    want = {'size_one_default_label': ['size_one_output'], 'vector_by_index': ['vector_output'],
            'one_row_by_name': ['input_conversion'], 'single': ['input_conversion', 'wrapper_call'],
            'rows_by_name': ['batch_input_conversion'], 'rows': ['batch_input_conversion'],
            'batch_input_by_name': ['batch_input_conversion'], 'batch_rows_in_order': ['batch_conversion', 'wrapper_call'],
            'ordered_dict_keys_distinct': ['input_conversion']}.get(ob.meta.get('clause'), [])
    for f in b['failures']:
        if f['key'] in want:
            return {'witness': {'key': f['key']}, 'observed': {'confirmed': True, 'what': f['summary']}}
    return None


def REPLAY(w):
    b = BOUNDED('quick', 0)[0]
    hit = [f for f in b['failures'] if f['key'] == w.get('key')]
    return {'confirmed': bool(hit), 'observed': [f['summary'] for f in hit[:2]]}
