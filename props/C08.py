"""C08 - UniformReservoirStorage keeps a uniformly random subset of the stream."""
import itertools
import math

ID = 'C08'
LEVEL = 'other'
CONTRACTS = ['contracts.storage']
CLOSURE = [
    {'fn': 'UniformReservoirStorage.__init__', 'clauses': ['algoL_init', 'cfg', 'empty']},
    {'fn': 'UniformReservoirStorage.update', 'clauses': ['algoL_step', 'inv:uniform_counter', 'inv:count']},
]
# refinement to Algorithm L: stricter than the statement (another correct uniform reservoir algorithm would lose it) - a failure
# counts as a violation only together with a failing input (quadrature / enumeration of the real class)
STRICTER_THAN_STATEMENT = ['algoL_*', '*algoL*']
EXPLANATION = ("Refinement to Algorithm L (Li 1994), the algorithm the class's own docstring cites, as a deterministic function of the "
               "ghost draw list: W0 = exp(log u0 / k), next0 = k + floor(log u1 / log(1 - W0)) + 1; on an acceptance (next = i') the slot is "
               "randrange(k) over the full range, W' = W exp(log u_a / k) and next' = next + floor(log u_b / log(1 - W')) + 1 - the skip "
               "is computed from the UPDATED weight; otherwise nothing changes and nothing is drawn. exp/log/floor are uninterpreted: the "
               "obligations are term identities. That Algorithm L yields a uniform k-subset (retention probability k/n) is Li's theorem - "
               "cited, not proved. A deterministic quadrature of inclusion probabilities on the real class is a bounded stand-in.")
ASSUMPTIONS = ["Li 1994 (Algorithm L yields a uniform k-subset); random.random continuous uniform on [0,1), i.i.d.; randrange uniform",
               "floats as reals; the float counter compared with == against an int is exact below 2^53",
               "a correct algorithm other than L fails the refinement and is reported with no-failing-input-found (stated limit)"]
TRUSTED_BASE = ["Li's theorem for Algorithm L", "distribution of random.random / random.randrange"]
LEVEL_TEXT = ("Deductive refinement of the real update/constructor code to Algorithm L over the draw list (all states, all draws); the "
              "uniformity statement itself rests on a cited theorem and the trusted RNG, hence 'other'. Bounded stand-in: midpoint "
              "quadrature of the inclusion probabilities through the real class for k=1,n<=3 and k=2,n<=4 against k/n.")
LEVEL_NOTE = "Li's theorem and the RNG distributions trusted; quadrature is a bounded numerical stand-in with tolerance"
TECHNIQUE = "contract-based refinement to the reference algorithm over uninterpreted exp/log/floor (z3/cvc5) + bounded quadrature"
DESIGN_REF = "DESIGN.md 5/C08"


def _quadrature(k, n, G):
    """inclusion probability of each arrival after n updates through the real class, whatever draws it makes: randrange
    draws enumerated exactly, random.random draws on G midpoints each (props/_util.outcome_distribution)"""
    from ixai.storage import UniformReservoirStorage
    from props._util import outcome_distribution

    def run():
        st = UniformReservoirStorage(size=k, store_targets=False)
        for t in range(n):
            st.update({'t': t})
        xs, _ = st.get_data()
        return tuple(sorted(x['t'] for x in xs))
    dist = outcome_distribution(run, G, exact=False)
    probs = [0.0] * n
    for content, w in dist.items():
        for t in content:
            probs[t] += w
    return probs


def _long_streams(tier, seed):
    """seeded frequencies on streams much longer than the reservoir (n > 22 k, where hybrid samplers switch algorithms):
    every position must be retained with frequency k/n within 6 standard errors (a false alarm has probability < 1e-7)"""
    import random as pyrandom
    from ixai.storage import UniformReservoirStorage
    runs = 4000 if tier == 'quick' else 40000
    fails, evals = [], 0
    cases = [(1, 30), (2, 60)]
    out = []
    for k, n in cases:
        pyrandom.seed(seed * 1000 + k)
        cnt = [0] * n
        for _ in range(runs):
            st = UniformReservoirStorage(size=k, store_targets=False)
            for t in range(n):
                st.update({'t': t})
            for x in st.get_data()[0]:
                cnt[x['t']] += 1
        evals += runs
        p = k / n
        se = math.sqrt(p * (1 - p) / runs)
        worst = max(range(n), key=lambda t: abs(cnt[t] / runs - p))
        z = (cnt[worst] / runs - p) / se
        out.append({'k': k, 'n': n, 'runs': runs, 'worst_position': worst, 'z': round(z, 2)})
        if abs(z) > 6:
            fails.append({'key': 'uniformity', 'summary': f'k={k} n={n}: arrival {worst} retained in {cnt[worst]} of {runs} seeded runs, '
                          f'expected k/n = {p:.4f} (z = {z:.1f})', 'k': k, 'n': n, 'observed': {'count': cnt[worst], 'runs': runs, 'z': z}})
    return {'name': 'retention_frequency_long_streams', 'evaluations': evals, 'distinct_nontrivial': len(cases),
            'rule': 'seeded Monte-Carlo frequencies of every arrival position on streams with n = 30 k (beyond 22 k); 6 standard errors',
            'bound': f'{runs} runs per case, k <= 2, n <= 60', 'cases': out, 'failures': fails}


def BOUNDED(tier, seed):
    fails = []
    cases = [(1, 2, 24), (1, 3, 8), (2, 3, 16), (2, 4, 6), (3, 4, 8)] if tier == 'quick' else \
        [(1, 2, 40), (1, 3, 12), (2, 3, 24), (2, 4, 8), (3, 4, 12)]
    evals = 0
    out = []
    skipped = []
    for k, n, G in cases:
        evals += 1
        try:
            probs = _quadrature(k, n, G)
        except RuntimeError as ex:
            if 'outcome_distribution' in str(ex):
                skipped.append({'k': k, 'n': n, 'grid': G, 'why': str(ex)})      # a limit of this harness, not of the library
                continue
            fails.append({'key': 'raised', 'summary': f'k={k} n={n}: UniformReservoirStorage raised {ex!r} under scripted draws', 'k': k, 'n': n,
                          'observed': repr(ex)})
            continue
        except Exception as ex:   # noqa  (the library raised)
            fails.append({'key': 'raised', 'summary': f'k={k} n={n}: UniformReservoirStorage raised {ex!r} under scripted draws', 'k': k, 'n': n,
                          'observed': repr(ex)})
            continue
        exp = k / n
        tol = 0.07 if tier == 'quick' else 0.035
        out.append({'k': k, 'n': n, 'grid': G, 'probs': [round(p, 4) for p in probs], 'expected': round(exp, 4)})
        if any(abs(p - exp) > tol for p in probs):
            fails.append({'key': 'uniformity', 'summary': f'k={k} n={n}: retention probabilities {[round(p, 3) for p in probs]} differ from k/n={exp:.3f}',
                          'k': k, 'n': n, 'grid': G, 'observed': {'probs': probs, 'expected': exp, 'tolerance': tol}})
    long_runs = _long_streams(tier, seed)
    return [long_runs, {'name': 'inclusion_probability_quadrature', 'evaluations': evals, 'distinct_nontrivial': len(cases),
             'rule': 'midpoint quadrature (G points per random.random draw) x exact enumeration of slots through the real class; '
                     'cases (k,n,G) = ' + str(cases) + '; tolerance 0.07 (quick, coarse grids) / 0.035 (thorough); distinct = (k, n)',
             'bound': 'k <= 3, n <= 4', 'cases': out, 'not_explored': skipped, 'failures': fails}]


def SEARCH(ob, seed):
    if ob.meta.get('clause') not in ('algoL_step', 'algoL_init'):
        return None
    probs = _quadrature(1, 3, 8)
    if any(abs(p - 1 / 3) > 0.07 for p in probs):
        return {'witness': {'k': 1, 'n': 3, 'grid': 8},
                'observed': {'confirmed': True, 'retention_probabilities': probs, 'expected': 1 / 3}}
    return None


def REPLAY(w):
    probs = _quadrature(int(w['k']), int(w['n']), int(w.get('grid', 8)))
    exp = int(w['k']) / int(w['n'])
    return {'confirmed': any(abs(p - exp) > 0.07 for p in probs), 'retention_probabilities': probs, 'expected': exp}
