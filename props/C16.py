"""C16 - normalised importances and confidence bounds are well-formed for all values."""
import itertools
import math
import warnings

import z3
from pyvc import verify, spec, symex
from pyvc.pylib import SQRT, POW

ID = 'C16'
LEVEL = 'proof'
CONTRACTS = ['contracts.explainer']
CLOSURE = [
    {'fn': 'Explainer._normalize_importance_values'},
    {'fn': 'Explainer.get_confidence_bound'},
    {'fn': 'Explainer.variances'}, {'fn': 'Explainer.importance_values'},
    # variances are running statistics of squares: the invariant var_nonneg is established and preserved
    {'fn': 'IncrementalPFI.__init__', 'clauses': ['inv:var_nonneg']},
    {'fn': 'IncrementalSage.__init__', 'clauses': ['inv:var_nonneg']},
    {'fn': 'IncrementalPFI.explain_one', 'clauses': ['inv:var_nonneg']},
    {'fn': 'IncrementalSage.explain_one', 'clauses': ['inv:var_nonneg']},
]
LEAN = ['msum_scale']
EXPLANATION = ("_normalize_importance_values for dicts of numbers of any numeric kind: ratios kept (cross-multiplied), 'sum' adds up to one, "
               "'delta' has range exactly one, a zero normaliser gives all 0.0 and finite; unknown mode raises NotImplementedError. "
               "get_confidence_bound returns, per feature, the shipped expression bound_expr(variance, alpha, seen, delta); scalar lemmas "
               "over that expression: it is (1-alpha)^t plus the non-negative root of variance*alpha/((2-alpha)*delta), non-negative, positive "
               "for alpha < 1, non-increasing in delta. Variances are >= 0 by the explainer invariant var_nonneg (running statistics of squares).")
ASSUMPTIONS = ["A1: floats as reals; numeric-kind model of division (py raises, NumPy yields inf/nan)",
               "reading of the statement: 'positive' is required for alpha < 1 (at alpha = 1 the formula itself evaluates to 0); before the "
               "first explained observation variances is empty and 'delta' mode has no max - preconditions (non-empty), not violations",
               "real power a**b is uninterpreted with the facts 0<=a<=1, b>=0 => 0<=a**b<=1 and a>0 => a**b>0 (trusted)"]
TRUSTED_BASE = ["lean 4.33 + Mathlib (msum_scale)", "sqrt = the non-negative real root; real power facts"]
LEVEL_TEXT = ("Deductive proof over the real source of the normalisation contract (all numeric kinds, both modes) and of the structure of "
              "the confidence bound, plus scalar lemmas over the shipped per-feature expression (root identity, sign, monotonicity in delta).")
LEVEL_NOTE = "floats as reals; kind model of NumPy division probed natively by the bounded stand-in; sqrt/power facts trusted"
TECHNIQUE = "contract-based deductive verification (z3/cvc5) + scalar lemma obligations over the contract's expression"
DESIGN_REF = "DESIGN.md 5/C16"


def _scalar(run):
    from contracts.explainer import bound_expr
    v, a, d, d2 = z3.Reals('v a d d2')
    t = z3.Int('t')
    tr = z3.ToReal(t)
    run.assume(v >= 0, a > 0, a <= 1, d > 0, d <= 1, d2 > 0, d2 <= 1, t >= 0)
    # facts of the trusted primitives, instantiated at the arguments that occur
    for x in (d, d2, v, a / (2 - a)):
        run.assume(SQRT(x) >= 0, z3.Implies(x >= 0, SQRT(x) * SQRT(x) == x))
    p = POW(1 - a, tr)
    run.assume(z3.Implies(z3.And(1 - a >= 0, 1 - a <= 1, tr >= 0), z3.And(p >= 0, p <= 1)), z3.Implies(1 - a > 0, p > 0))
    b = (1 / SQRT(d)) * SQRT(v) * SQRT(a / (2 - a))
    b2 = (1 / SQRT(d2)) * SQRT(v) * SQRT(a / (2 - a))
    key = 'Explainer.get_confidence_bound/scalar'
    run.oblige(key + '/root_identity', z3.And(b >= 0, b * b * (2 - a) * d == v * a), kind='corollary', clause='root_identity',
               function='Explainer.get_confidence_bound')
    run.oblige(key + '/is_bound_expr', bound_expr(v, a, tr, d) == p + b, kind='corollary', clause='is_bound_expr',
               function='Explainer.get_confidence_bound')
    run.oblige(key + '/nonneg', p + b >= 0, kind='corollary', clause='nonneg', function='Explainer.get_confidence_bound')
    run.oblige(key + '/positive', z3.Implies(a < 1, p + b > 0), kind='corollary', clause='positive',
               function='Explainer.get_confidence_bound')
    run.oblige(key + '/monotone_in_delta', z3.Implies(d <= d2, p + b >= p + b2), kind='corollary', clause='monotone',
               function='Explainer.get_confidence_bound')
    run.oblige(key + '/canary', False, canary=True, kind='canary', clause='canary')


def EXTRA_OBLIGATIONS(tier):
    return verify.lemma_obligations('Explainer.get_confidence_bound', _scalar)


def _sweep():
    import numpy as np
    from ixai.explainer.base import BaseIncrementalFeatureImportance as B
    makers = {'int': int, 'float': float, 'np.float64': np.float64, 'np.int64': np.int64, 'np.float32': np.float32}
    n, bad = 0, []
    for mode in ('sum', 'delta'):
        for (na, fa), (nb, fb) in itertools.product(makers.items(), repeat=2):
            for a, b, c in ((1, -1, 0), (0, 0, 0), (2, 2, 2), (1, 3, -2), (-1, 2, 4), (5, 5, 1)):
                vals = {'a': fa(a), 'b': fb(b), 'c': fa(c)}
                n += 1
                with warnings.catch_warnings():
                    warnings.simplefilter('ignore')
                    try:
                        out = B._normalize_importance_values(dict(vals), mode=mode)
                    except Exception as ex:   # noqa
                        bad.append((mode, f"{na},{nb}:{(a, b, c)}", f"raised {ex!r}"))
                        continue
                o = {k: float(v) for k, v in out.items()}
                factor = (a + b + c) if mode == 'sum' else max(a, b, c) - min(a, b, c)
                if factor == 0:
                    ok = all(v == 0.0 for v in o.values())
                else:
                    ok = all(math.isfinite(v) for v in o.values()) and all(abs(o[k] * factor - float(vals[k])) < 1e-5 for k in o)
                    ok = ok and (abs(sum(o.values()) - 1) < 1e-5 if mode == 'sum' else abs(max(o.values()) - min(o.values()) - 1) < 1e-5)
                if not ok:
                    bad.append((mode, f"{na},{nb}:{(a, b, c)}", f"normalised {out}"))
        # the same at very small and very large magnitudes: a non-zero normaliser, however tiny, normalises (float kinds only)
        for scale in (1e-10, 1e-13, 1e12, 1e-310):      # 1e-310: a subnormal normaliser (its reciprocal overflows)
            for a, b, c in ((1, 3, -2), (-1, 2, 4), (5, 5, 1)):
                for mk_name, mk in (('float', float), ('np.float64', np.float64)):
                    vals = {'a': mk(a * scale), 'b': mk(b * scale), 'c': mk(c * scale)}
                    n += 1
                    with warnings.catch_warnings():
                        warnings.simplefilter('ignore')
                        try:
                            out = B._normalize_importance_values(dict(vals), mode=mode)
                        except Exception as ex:   # noqa
                            bad.append((mode, f"{mk_name} x {scale}:{(a, b, c)}", f"raised {ex!r}"))
                            continue
                    o = {k: float(v) for k, v in out.items()}
                    factor = (a + b + c) if mode == 'sum' else max(a, b, c) - min(a, b, c)
                    ok = all(math.isfinite(v) for v in o.values()) and all(abs(o[k] * factor - float(vals[k]) / scale) < 1e-5 for k in o)
                    ok = ok and (abs(sum(o.values()) - 1) < 1e-5 if mode == 'sum' else abs(max(o.values()) - min(o.values()) - 1) < 1e-5)
                    if not ok:
                        bad.append((mode, f"{mk_name} x {scale}:{(a, b, c)}", f"normalised {out}"))
    return n, bad


def BOUNDED(tier, seed):
    n, bad = _sweep()
    fails = [{'key': 'zero_norm_numpy' if 'np.' in w else 'normalise', 'summary': f"_normalize_importance_values(mode={m}) on {w}: {o}",
              'mode': m, 'values': w, 'observed': o} for m, w, o in bad]
    # confidence bound on real explainer states
    import random
    from ixai.explainer import IncrementalPFI
    rng = random.Random(seed)
    evals, cb_fail = 0, []
    with warnings.catch_warnings():
        warnings.simplefilter('ignore')
        for alpha in (0.001, 0.3, 1.0):
            ex = IncrementalPFI(lambda x: {'output': x['a'] + 2 * x['b']}, lambda y, p: (y - p['output']) ** 2, ['a', 'b'],
                                smoothing_alpha=alpha, n_inner_samples=2)
            random.seed(seed)
            for t in range(12):
                x = {'a': rng.random(), 'b': rng.random()}
                ex.explain_one(x, x['a'] + 2 * x['b'] + rng.random())
                if t >= 1:
                    prev = None
                    for delta in (0.01, 0.1, 0.5, 1.0):
                        evals += 1
                        cb = ex.get_confidence_bound(delta)
                        var = ex.variances
                        for f in ('a', 'b'):
                            exp = (1 - alpha) ** ex.seen_samples + math.sqrt(var[f] * alpha / ((2 - alpha) * delta))
                            if var[f] < 0 or not math.isfinite(cb[f]) or abs(cb[f] - exp) > 1e-9 * (1 + exp) or cb[f] < 0 \
                                    or (alpha < 1 and cb[f] <= 0) or (prev is not None and cb[f] > prev[f] + 1e-12):
                                cb_fail.append({'key': 'confidence_bound', 'summary': f'alpha={alpha} t={t} delta={delta} feature {f}: bound {cb[f]} '
                                                f'vs formula {exp}, variance {var[f]}', 'observed': {'bound': cb[f], 'formula': exp}})
                        prev = cb
    return [{'name': 'normalise_numeric_kinds', 'evaluations': n, 'distinct_nontrivial': n,
             'rule': 'both modes x {int,float,np.float64,np.int64,np.float32}^2 x 6 value triples (zero-sum, all-equal, sign-mixed): ratios, '
                     'sum one / range one, zeros and finiteness for a zero normaliser', 'bound': '3 keys', 'failures': fails},
            {'name': 'confidence_bound_formula', 'evaluations': evals, 'distinct_nontrivial': evals,
             'rule': 'IncrementalPFI runs (alpha in {0.001,0.3,1}) x 11 prefixes x 4 deltas: bound equals the closed formula, finite, '
                     'non-negative, positive for alpha<1, non-increasing in delta', 'bound': '12 observations', 'failures': cb_fail}]


def SEARCH(ob, seed):
    if ob.meta.get('clause') not in ('zero_norm', 'finite'):
        return None
    n, bad = _sweep()
    if bad:
        m, w, o = bad[0]
        return {'witness': {'mode': m, 'values': w}, 'observed': {'confirmed': True, 'result': o}}
    return None


def REPLAY(w):
    n, bad = _sweep()
    hit = [o for m, x, o in bad if x == w.get('values') and m == w.get('mode')]
    return {'confirmed': bool(hit), 'observed': hit[:1]}
