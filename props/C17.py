"""C17 - a failing callback leaves the explainer's estimates untouched."""
import copy
import random
import warnings

ID = 'C17'
LEVEL = 'proof'
CONTRACTS = ['contracts.explainer', 'contracts.batch']
_F = {'fault_mode': True}
_CL = ['estimates_untouched', 'inv:Eff', 'fault_propagates', 'frame']     # 'frame': the loops leave the estimates alone
CLOSURE = [
    {'fn': 'IncrementalPFI.explain_one', 'opts': _F, 'clauses': _CL, 'safety': False, 'tag': 'faults'},
    {'fn': 'IncrementalSage.explain_one', 'opts': _F, 'clauses': _CL, 'safety': False, 'tag': 'faults'},
    {'fn': 'BatchExplainer.explain_many', 'opts': _F, 'clauses': _CL, 'safety': False, 'tag': 'faults'},
    {'fn': 'BatchExplainer.explain_many_original', 'opts': _F, 'clauses': _CL, 'safety': False, 'tag': 'faults'},
    {'fn': 'BatchSage.explain_one', 'opts': _F, 'clauses': _CL, 'safety': False, 'tag': 'faults'},
    {'fn': 'IntervalSage.explain_one', 'opts': _F, 'clauses': _CL, 'safety': False, 'tag': 'faults'},
]
EXPLANATION = ("Fault mode: every callback call event (model, loss) and every interface call (imputer.impute, storage.update, "
               "storage.get_data) forks into 'returns' and 'raises'; the fault position is a symbolic choice, so all positions are "
               "covered at once, including positions inside loops (arbitrary iteration). Exceptional postcondition of explain_one / "
               "explain_many: the exception propagates and importance, variance, marginal/model loss trackers, the marginal prediction "
               "tracker and the marginal prediction (resp. importance_values of the batch explainers) equal their pre-state. Since the "
               "state is unchanged the efficiency invariant still holds when the stream continues.")
ASSUMPTIONS = ["only callbacks and interface calls raise (MemoryError, KeyboardInterrupt etc. are not modelled)",
               "tracker updates and dict operations on the explainer's own state do not fail"]
TRUSTED_BASE = ["fault model: one symbolic fault point per callback / interface call"]
LEVEL_TEXT = ("Deductive proof of the exceptional postcondition over the real explain_one bodies with a symbolic fault at every callback "
              "position (no enumeration bound). Bounded stand-in: run-time fault injection at every k-th callback on real streams.")
LEVEL_NOTE = "fault model limited to callbacks and interface calls; callbacks deterministic otherwise"
TECHNIQUE = "contract-based deductive verification with exceptional postconditions and symbolic fault points (z3/cvc5)"
DESIGN_REF = "DESIGN.md 5/C17"


class _Boom(Exception):
    pass


class _Faulty:
    """wraps a callable; raises at the k-th call (global counter shared by all wrapped callbacks)"""

    def __init__(self, f, ctl):
        self.f, self.ctl = f, ctl

    def __call__(self, *a, **kw):
        self.ctl['n'] += 1
        if self.ctl['n'] == self.ctl['k']:
            raise self.ctl.get('exc', _Boom)(f"fault at callback #{self.ctl['n']}")
        return self.f(*a, **kw)


def _state(ex):
    s = {'importance': copy.deepcopy(ex.importance_values)}
    for a in ('variances', 'marginal_loss', 'model_loss', 'marginal_prediction'):
        if hasattr(ex, a):
            try:
                s[a] = copy.deepcopy(getattr(ex, a))
            except Exception:   # noqa
                pass
    if hasattr(ex, '_marginal_prediction_tracker'):
        s['marginal_prediction_tracker'] = copy.deepcopy(ex._marginal_prediction_tracker.get())
    return s


def BOUNDED(tier, seed):
    from ixai.explainer import IncrementalPFI, IncrementalSage, BatchSage, IntervalSage
    from ixai.storage import BatchStorage, IntervalStorage
    from ixai.imputer import MarginalImputer
    warnings.simplefilter('ignore')
    rng = random.Random(seed)
    fails, evals, distinct = [], 0, set()
    names = ['a', 'b']

    def model(x):
        if not isinstance(x, dict):
            return [{'output': float(xi['a'] + 2 * xi['b'])} for xi in x]
        return {'output': float(x['a'] + 2 * x['b'])}

    def loss(y, p):
        return (y - p['output']) ** 2

    stream = [({'a': rng.randint(0, 4), 'b': rng.randint(0, 4)}, rng.randint(0, 9)) for _ in range(5)]

    def build(cname, ctl):
        m, l = _Faulty(model, ctl), _Faulty(loss, ctl)
        if cname == 'IncrementalPFI':
            st = BatchStorage(store_targets=False)
            st.update = _Faulty(st.update, ctl)
            return IncrementalPFI(m, l, names, storage=st, smoothing_alpha=0.5, n_inner_samples=2)
        if cname == 'IncrementalSage':
            st = BatchStorage(store_targets=False)
            st.update = _Faulty(st.update, ctl)
            return IncrementalSage(m, l, names, storage=st, smoothing_alpha=0.5, n_inner_samples=2)
        if cname in ('BatchSage', 'BatchSageOriginal'):
            return BatchSage(m, names, l, n_inner_samples=2)
        return IntervalSage(m, names, l, n_inner_samples=2, interval_length=1, storage_length=3)
    for cname in ('IncrementalPFI', 'IncrementalSage', 'BatchSage', 'BatchSageOriginal', 'IntervalSage'):
        kw = {'verbose': False} if cname in ('BatchSage', 'BatchSageOriginal', 'IntervalSage') else {}
        if cname == 'BatchSageOriginal':
            kw['original_sage'] = True
        # how many callbacks does the 3rd call make?
        ctl = {'n': 0, 'k': -1}
        ex = build(cname, ctl)
        random.seed(seed)
        for x, y in stream[:2]:
            ex.explain_one(x, y, **kw)
        before = ctl['n']
        ex.explain_one(*stream[2], **kw)
        total = ctl['n'] - before
        # "a failing callback" may raise ANY exception: an own class and the common built-in ones
        for k, exc in [(k, e) for k in range(1, total + 1) for e in (_Boom, ValueError, KeyError, ZeroDivisionError, RuntimeError)]:
            ctl = {'n': 0, 'k': -1, 'exc': exc}
            ex = build(cname, ctl)
            random.seed(seed)
            for x, y in stream[:2]:
                ex.explain_one(x, y, **kw)
            st0 = _state(ex)
            ctl['k'] = ctl['n'] + k
            evals += 1
            distinct.add((cname, k, exc.__name__))
            try:
                ex.explain_one(*stream[2], **kw)
                fails.append({'key': f'swallowed_{cname}', 'summary': f'{cname}: a {exc.__name__} raised at callback {k}/{total} did not propagate',
                              'explainer': cname, 'fault_position': k})
                continue
            except exc:
                pass
            st1 = _state(ex)
            if st0 != st1:
                diff = [a for a in st0 if st0[a] != st1.get(a)]
                fails.append({'key': f'partial_commit_{cname}', 'summary': f'{cname}: fault at callback {k} of {total} in explain_one changed {diff}',
                              'explainer': cname, 'fault_position': k, 'observed': {'before': str(st0), 'after': str(st1)}})
                continue
            if cname == 'IncrementalSage':
                ctl['k'] = -1
                for x, y in stream[3:]:
                    ex.explain_one(x, y)
                if abs(sum(ex.importance_values.values()) - ex.explained_loss) > 1e-9:
                    fails.append({'key': 'efficiency_after_fault', 'summary': f'IncrementalSage: efficiency broken after a fault at callback {k}'})
    return [{'name': 'fault_injection_runtime', 'evaluations': evals, 'distinct_nontrivial': len(distinct),
             'rule': 'for each explainer: a fault (own exception class, ValueError, KeyError, ZeroDivisionError, RuntimeError) at every k-th callback '
                     'invocation (model, loss, storage.update) of the 3rd explain_one call: it must propagate; '
                     'estimates compared before/after; IncrementalSage continues the stream and re-checks efficiency; distinct = (explainer, k)',
             'bound': '5 observations, 2 features, n_inner = 2', 'failures': fails}]


def SEARCH(ob, seed):
    b = BOUNDED('quick', seed)[0]
    cls = (ob.meta.get('function') or '').split('.')[0]
    for f in b['failures']:
        if cls in f['key']:
            return {'witness': {'key': f['key'], 'explainer': cls, 'fault_position': f.get('fault_position')},
                    'observed': {'confirmed': True, 'what': f['summary']}}
    return None


def REPLAY(w):
    b = BOUNDED('quick', 0)[0]
    hit = [f for f in b['failures'] if f['key'] == w.get('key')]
    return {'confirmed': bool(hit), 'observed': [f['summary'] for f in hit[:2]]}
