"""C06 - imputers replace exactly the requested features with genuine background values."""
import copy
import itertools
import random

ID = 'C06'
LEVEL = 'proof'
CONTRACTS = ['contracts.storage', 'contracts.imputer']
CLOSURE = [{'fn': 'DefaultImputer.__init__'}, {'fn': 'MarginalImputer.__init__'}]
for _v in ('', '#list'):
    CLOSURE += [{'fn': 'DefaultImputer.impute' + _v}, {'fn': 'MarginalImputer.impute' + _v}, {'fn': 'Imputer._sample' + _v},
                {'fn': 'Imputer._sample_marginals' + _v}, {'fn': 'Imputer._sample_product_marginals' + _v}]
CLOSURE += [{'fn': 'Storage.get_data', 'clauses': ['view']}]
EXPLANATION = ("For DefaultImputer.impute and MarginalImputer.{impute,_sample,_sample_marginals,_sample_product_marginals}, with the "
               "feature subset given as a set and as a list: every model input (ghost list zs, one per returned prediction) agrees "
               "with x_i on dom and value outside the subset, takes each subset feature from the configured defaults / from a row of "
               "the storage view (the same row for all features under 'joint'); exactly n_samples predictions = M(z_j); empty subset "
               "=> every prediction is M(x_i); x_i, the subset and the storage are unchanged; one randrange over the whole view per "
               "sample (joint) / per feature (product).")
ASSUMPTIONS = ["A2: the model is a deterministic function that does not mutate its argument",
               "preconditions from the quantifier: every requested feature occurs in every stored row / has a configured default; "
               "an empty storage makes MarginalImputer raise ValueError (random.randrange(0)) - excluded by the explainers' first-sample guard",
               "dict-merge semantics {**a, **b}: right operand wins (trusted library contract, exercised natively by the bounded stand-in)"]
TRUSTED_BASE = ["dict / list / set primitives, random.randrange range contract"]
LEVEL_TEXT = ("Deductive proof of the imputer interface contract over the real source for every instance, subset (set or list, empty or "
              "full), storage content, strategy, n_samples and every outcome of the draws; the same contract is what the explainers "
              "are verified against.")
LEVEL_NOTE = "model pure and deterministic; dict-merge and container primitives trusted; RNG range contract"
TECHNIQUE = "contract-based deductive verification with loop invariants and ghost model-input list (z3/cvc5)"
DESIGN_REF = "DESIGN.md 5/C06"


class _Rec:
    """a model function that records (a copy of) every input it is evaluated on"""

    def __init__(self):
        self.inputs = []

    def __call__(self, x):
        self.inputs.append(dict(x))
        return {'output': sum(v for v in x.values() if isinstance(v, (int, float)))}


def _check_call(imp, rec, subset, x_i, n, rows, joint, defaults=None):
    x_before = copy.deepcopy(x_i)
    sub_before = copy.deepcopy(subset)
    rows_before = copy.deepcopy(rows) if rows is not None else None
    rec.inputs.clear()
    out = imp.impute(subset, x_i, n)
    if x_i != x_before:
        return f"instance modified: {x_before} -> {x_i}"
    if subset != sub_before:
        return f"subset modified: {sub_before} -> {subset}"
    if rows is not None and rows != rows_before:
        return f"storage modified"
    if len(out) != n:
        return f"returned {len(out)} predictions for n_samples={n}"
    S = set(subset)
    expected_calls = 1 if defaults is not None else n
    if len(rec.inputs) != expected_calls:
        return f"{len(rec.inputs)} model evaluations, expected {expected_calls}"
    for j, z in enumerate(rec.inputs):
        for k in x_i:
            if k not in S and (k not in z or z[k] != x_i[k]):
                return f"model input {z} differs from the instance outside the subset at {k!r}"
        if set(z) - set(x_i) - S:
            return f"model input {z} has extra features"
        if defaults is not None:
            if any(z.get(k) != defaults[k] for k in S):
                return f"model input {z} does not use the configured defaults on {S}"
        else:
            if any(all(z.get(k) != r[k] for r in rows) for k in S):
                return f"model input {z} has a subset value that is in no stored row"
            if joint and S and not any(all(z.get(k) == r[k] for k in S) for r in rows):
                return f"joint strategy: model input {z} mixes rows"
    if not S and any(o != {'output': sum(v for v in x_i.values())} for o in out):
        return f"empty subset: predictions {out} are not the unperturbed prediction"
    exp_out = [{'output': sum(v for v in z.values())} for z in (rec.inputs if defaults is None else rec.inputs * n)]
    if out != exp_out:
        return f"predictions {out} are not the model outputs on the evaluated inputs"
    return None


def BOUNDED(tier, seed):
    from ixai.imputer import MarginalImputer, DefaultImputer
    from ixai.storage import BatchStorage, IntervalStorage, GeometricReservoirStorage, UniformReservoirStorage
    rng = random.Random(seed)
    fails, evals, distinct = [], 0, set()
    feats = ['a', 'b', 'c']
    subsets = []
    for r in range(0, 4):
        for comb in itertools.combinations(feats, r):
            subsets += [list(comb), set(comb), tuple(comb)]
    random.seed(seed)
    rounds = 3 if tier == 'quick' else 30
    for rnd in range(rounds):
        rows = [{f: rng.randint(0, 9) + 10 * i for f in feats} for i in range(rng.randint(1, 4))]
        for mk in (lambda: BatchStorage(), lambda: IntervalStorage(size=5), lambda: GeometricReservoirStorage(size=5),
                   lambda: UniformReservoirStorage(size=5)):
            st = mk()
            for r in rows:
                st.update(r, 0)
            stored = list(st.get_data()[0])
            for strategy in ('joint', 'product'):
                rec = _Rec()
                imp = MarginalImputer(rec, strategy, st)
                for sub in subsets:
                    x_i = {f: 1000 + i for i, f in enumerate(feats)}
                    for n in (1, 3):
                        evals += 1
                        distinct.add((type(st).__name__, strategy, str(sub), n, rnd))
                        err = _check_call(imp, rec, copy.copy(sub), x_i, n, stored, strategy == 'joint')
                        if err:
                            fails.append({'key': 'marginal_' + strategy, 'summary': f'MarginalImputer({strategy}) subset={sub!r} n={n}: {err}',
                                          'storage': type(st).__name__, 'rows': stored, 'subset': repr(sub), 'observed': err})
        rec = _Rec()
        defaults = {f: -1 - i for i, f in enumerate(feats)}
        imp = DefaultImputer(rec, defaults)
        for sub in subsets:
            for n in (1, 3):
                evals += 1
                distinct.add(('default', str(sub), n))
                err = _check_call(imp, rec, copy.copy(sub), {f: 1000 + i for i, f in enumerate(feats)}, n, None, False, defaults)
                if err:
                    fails.append({'key': 'default', 'summary': f'DefaultImputer subset={sub!r} n={n}: {err}', 'subset': repr(sub),
                                  'observed': err})
                # a sparse instance: a requested feature that the instance does not carry still gets the configured default
                if 'b' in set(sub):
                    evals += 1
                    distinct.add(('default_sparse', str(sub), n))
                    err = _check_call(imp, rec, copy.copy(sub), {'a': 1000, 'c': 1002}, n, None, False, defaults)
                    if err:
                        fails.append({'key': 'default', 'summary': f'DefaultImputer subset={sub!r} n={n} on an instance without b: {err}',
                                      'subset': repr(sub), 'observed': err})
    return [{'name': 'imputer_runtime_contract', 'evaluations': evals, 'distinct_nontrivial': len(distinct),
             'rule': 'recording model; every subset of 3 features as list/set/tuple x n_samples in {1,3} x 4 storage kinds x both '
                     'strategies x seeded storage contents, plus DefaultImputer; the interface clauses evaluated natively on every call',
             'bound': '3 features, <= 4 stored rows', 'failures': fails}]


def REPLAY(w):
    return {'confirmed': False, 'note': 're-run the bounded stand-in to re-derive'}
