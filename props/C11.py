"""C11 - SlidingWindowTracker reports statistics of exactly the last k values."""
import math
import random
import warnings

ID = 'C11'
LEVEL = 'proof'
CONTRACTS = ['contracts.sliding_window']
CLOSURE = [{'fn': 'SlidingWindowTracker.__init__'}, {'fn': 'SlidingWindowTracker.update'},
           {'fn': 'SlidingWindow.mean'}, {'fn': 'SlidingWindow.var'}, {'fn': 'SlidingWindow.std'}, {'fn': 'SlidingWindow.__call__'}]
EXPLANATION = ("Ring-buffer invariant with ghost history H, update count cnt and lap start: slots [0, window_k) hold H[lap + j], slots "
               "[window_k, k) hold H[lap - k + j] or NaN when there was no previous lap, cnt = lap + window_k - so the non-NaN content of "
               "the buffer is exactly the last min(cnt, k) values supplied (no modular arithmetic needed). __init__ establishes it, update "
               "preserves it for every k >= 1 and every stream length; mean/var/std are np.nanmean/nanvar/nanstd of that buffer. "
               "Environment obligation: every module attribute the constructor reads must exist in the installed NumPy (decided "
               "concretely when the VC is generated; a missing attribute is an AttributeError path).")
ASSUMPTIONS = ["np.nanmean/nanvar/nanstd = the statistics of the non-NaN entries (trusted library contract; exercised natively by the bounded stand-in)",
               "only the installed NumPy can be checked ('supported versions' in general is not decidable here)",
               "that the statistic of the buffer content equals the statistic of the last min(n,k) values in arrival order uses that "
               "mean/var/std do not depend on the order of the entries (rearrangement; not mechanised)"]
TRUSTED_BASE = ["ndarray model: 1-d float array with a NaN mask", "NumPy nan-statistics contract"]
LEVEL_TEXT = ("Deductive proof of the ring-buffer invariant over the real source for all window sizes and stream lengths, plus the "
              "environment obligation on the installed NumPy; bounded stand-in: statistics compared with the last min(n,k) values for "
              "streams up to length 3k+2.")
LEVEL_NOTE = "NumPy nan-statistics and ndarray model trusted; installed NumPy only"
TECHNIQUE = "contract-based deductive verification: data-structure invariant with ghost history (z3/cvc5) + environment obligation"
DESIGN_REF = "DESIGN.md 5/C11"


def BOUNDED(tier, seed):
    warnings.simplefilter('ignore')
    rng = random.Random(seed)
    fails, evals, distinct = [], 0, set()
    try:
        from ixai.utils.tracker import SlidingWindowTracker
    except Exception as ex:   # noqa
        return [{'name': 'last_k_statistics', 'evaluations': 1, 'distinct_nontrivial': 2, 'rule': 'import', 'failures': [
            {'key': 'import', 'summary': f'SlidingWindowTracker cannot be imported: {ex!r}'}]}]
    for k in (1, 2, 3, 5):
        try:
            t = SlidingWindowTracker(k)
        except Exception as ex:   # noqa
            fails.append({'key': 'constructor', 'summary': f'SlidingWindowTracker({k}) raised {ex!r} on the installed NumPy', 'k': k,
                          'observed': repr(ex)})
            continue
        streams = [[rng.randint(-9, 9) + 0.5 * i for i in range(3 * k + 2)],
                   # a value of much larger magnitude passes through the window and leaves it again: the statistics are those of
                   # the values IN the window, with no residue of values that have left it
                   [1e17] + [1.0] * (3 * k + 1), [0.1] * k + [1e12] + [0.1] * (3 * k), [-1e15, 3.0] + [2.0, 4.0] * (2 * k),
                   # values on a large offset relative to their spread (timestamps, counters): variance of the values, not of rounding
                   [1e8 + j for j in range(3 * k + 2)], [1e6 + 1e-3 * (j % 3) for j in range(3 * k + 2)]]
        for stream in streams:
          t = SlidingWindowTracker(k)
          for n, v in enumerate(stream, start=1):
            t.update(v)
            evals += 1
            distinct.add((k, n, streams.index(stream)))
            last = stream[max(0, n - k):n]
            m = math.fsum(last) / len(last)
            var = math.fsum((x - m) ** 2 for x in last) / len(last)
            got = (t.mean, t.var, t.std, t())
            sc = max(1.0, max(abs(x) for x in last))
            spread = max(last) - min(last)
            tol_var = 1e-9 * max(var, spread * spread) + 64 * 2.0 ** -52 * sc * spread + 1e-300
            tol_std = 1e-9 * max(math.sqrt(var), spread) + math.sqrt(64 * 2.0 ** -52 * sc * spread) * 1e-3 + 1e-12 * sc * (spread > 0) + 1e-300
            if not (abs(got[0] - m) < 1e-9 * sc and abs(got[1] - var) <= tol_var and abs(got[2] - math.sqrt(var)) <= max(tol_std, 1e-7 * math.sqrt(var))
                    and abs(got[3] - m) < 1e-9 * sc):
                fails.append({'key': 'ring_buffer', 'summary': f'k={k}: after {n} updates mean/var {got[:2]} but the last {len(last)} values '
                              f'{last} have mean/var {(m, var)}', 'k': k, 'stream': stream[:n], 'observed': {'got': got, 'expected': (m, var)}})
                break
    return [{'name': 'last_k_statistics', 'evaluations': max(evals, 1), 'distinct_nontrivial': max(2, len(distinct)),
             'rule': 'k in {1,2,3,5}, streams of length 3k+2 (beyond k and beyond 2k), one seeded plus three with a value of much larger magnitude '
                     'passing through the window: mean/var/std/__call__ against the last min(n,k) values (tolerance relative to the window)',
             'bound': 'k <= 5, n <= 17', 'failures': fails}]


def SEARCH(ob, seed):
    b = BOUNDED('quick', seed)[0]
    want = 'constructor' if 'AttributeError' in (ob.meta.get('clause') or '') else 'ring_buffer'
    for f in b['failures']:
        if f['key'] == want:
            return {'witness': {'key': f['key'], 'k': f.get('k'), 'stream': f.get('stream')}, 'observed': {'confirmed': True, 'what': f['summary']}}
    return None


def REPLAY(w):
    b = BOUNDED('quick', 0)[0]
    hit = [f for f in b['failures'] if f['key'] == w.get('key')]
    return {'confirmed': bool(hit), 'observed': [f['summary'] for f in hit[:2]]}
