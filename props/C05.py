"""C05 - batch and interval SAGE: efficiency over explained data; interval schedule."""
import random
import warnings
from fractions import Fraction

ID = 'C05'
LEVEL = 'proof'
CONTRACTS = ['contracts.explainer', 'contracts.batch']
CLOSURE = [
    {'fn': 'BatchSage.__init__'}, {'fn': 'IntervalSage.__init__'},
    {'fn': 'BatchExplainer.explain_many', 'exclude': ['one_full_permutation']},
    {'fn': 'BatchExplainer.explain_many_original', 'exclude': ['background_from_whole_data', 'one_full_permutation']},
    {'fn': 'BatchSage.explain_one'}, {'fn': 'IntervalSage.explain_one'},
    {'fn': '_get_mean_model_output', 'clauses': ['const_mean', 'labels', 'mean_def']},
    {'fn': 'IntervalStorage.update', 'clauses': ['inv:interval_order', 'inv:count', 'inv:xs_observed', 'inv:ys_aligned', 'newest_last']},
    {'fn': 'BatchStorage.update', 'clauses': ['inv:batch_order', 'inv:count', 'inv:xs_observed', 'inv:ys_aligned']},
    {'fn': 'Storage.get_data'}, {'fn': 'IntervalStorage.get_data'},
    {'fn': 'MarginalImputer.impute', 'clauses': ['empty_identity', 'count']},
]
LEAN = ['msum_scale', 'msum_zero', 'msum_update', 'ssum_const']
EXPLANATION = ("explain_many / explain_many_original: with N = len(x_data) = len(y_data) >= 1 and mp = mean of the model's predictions on "
               "x_data, N * sum(importance values) = BSUM(N) = sum_i (L(y_i, mp) - L(y_i, M(x_i))) - outer-loop invariant over prefix sums "
               "(ghost PS), inner chain loop telescoping to the model's own loss (the last step imputes nothing; original mode: the last "
               "model input agrees with x_i on every explained feature, side condition: the model reads only explained features); the "
               "division is by N. Per feature (both modes): ghost log CS of the per-observation chain contributions (chain loop ghost MC[f] = "
               "loss before f joined - loss after; invariant mc_credit: sage_values[f] = value at chain entry + MC[f], nothing else is "
               "credited), outer invariant sage_values[f] = sum_{i<m} CS[i][f] (column sums, Lean ssum_succ / ssum_congr), postcondition "
               "per_feature_average: importance[f] * N = sum_i CS[i][f]. IntervalSage.explain_one: seen+1; storage updated iff update_storage; if not forced and seen' mod "
               "interval_length != 0 the previous values are returned unchanged and model/loss/imputer are not called; otherwise "
               "explain_many runs on exactly the storage view, which by the IntervalStorage invariant is the last storage_length "
               "observations in arrival order. BatchSage.explain_one = storage update, then explain over the whole view.")
ASSUMPTIONS = ["A1 floats as reals; A2 deterministic model/loss; imputer interface contract", "len(y_data) = len(x_data) >= 1 (targets stored)",
               "original mode: the explained feature names cover every feature the model reads and every row has them",
               "the per-feature clause is stated over a ghost log CS of per-observation contribution dicts: CS[i][f] is DEFINED as "
               "(loss before f joined the coalition in observation i's chain) - (loss after), recorded by the chain loop's ghost MC"]
TRUSTED_BASE = ["lean 4.33 + Mathlib (msum_scale, msum_zero, msum_update)", "the model applied to a list returns the list of its single-instance outputs"]
LEVEL_TEXT = ("Deductive proof over the real BatchSage/IntervalSage source of the efficiency identity (nested loop invariants with ghost "
              "prefix sums) and of the interval schedule, for every data set, n_inner, interval/storage length, interleaving of forced and "
              "unforced calls and every outcome of the draws.")
LEVEL_NOTE = "floats as reals; batch model call = pointwise; imputer interface contract"
TECHNIQUE = "contract-based deductive verification with nested loop invariants and ghost prefix sums (z3/cvc5) + Lean lemmas"
DESIGN_REF = "DESIGN.md 5/C05"


def _model(x):
    if not isinstance(x, dict):
        return [_model(xi) for xi in x]
    return {'output': sum(Fraction(v) * (i + 1) for i, v in enumerate(x.values()))}


def _loss(y, p):
    return (Fraction(y) - p['output']) ** 2


def _close(a, b):
    """the explainers start their sums at the float 0., so results are floats: compare up to rounding"""
    return abs(float(a) - float(b)) <= 1e-9 * (1 + abs(float(b)))


def BOUNDED(tier, seed):
    import numpy as np
    from ixai.explainer import BatchSage, IntervalSage
    from ixai.imputer import MarginalImputer
    from ixai.storage import BatchStorage, IntervalStorage
    warnings.simplefilter('ignore')
    rng = random.Random(seed)
    fails, evals, distinct = [], 0, set()
    names = ['a', 'b', 'c']
    random.seed(seed)
    np.random.seed(seed)
    for mode in ('many', 'original'):
        for n_inner in (1, 2):
            for N in (1, 2, 4):
                xs = [{k: Fraction(rng.randint(-3, 3)) for k in names} for _ in range(N)]
                ys = [rng.randint(-2, 2) for _ in range(N)]
                st = BatchStorage(store_targets=True)
                for x, y in zip(xs, ys):
                    st.update(x, y)
                calls = []

                class Rec(MarginalImputer):
                    def impute(self, feature_subset, x_i, n_samples=1):
                        r = super().impute(feature_subset, x_i, n_samples)
                        calls.append((set(feature_subset), r))
                        return r
                ex = BatchSage(_model, names, _loss, n_inner_samples=n_inner, storage=st, imputer=Rec(_model, 'joint', st))
                out = (ex.explain_many if mode == 'many' else ex.explain_many_original)(xs, ys, verbose=False)
                evals += 1
                distinct.add((mode, n_inner, N))
                preds = [_model(x) for x in xs]
                mp = {'output': sum(p['output'] for p in preds) / N}
                target = sum(_loss(y, mp) - _loss(y, p) for y, p in zip(ys, preds)) / N
                ok = set(out) == set(names) and _close(sum(out.values()), target) and out == ex.importance_values
                if ok and mode == 'many':
                    # per-feature: average over observations of the feature's chain contribution (recomputed from the imputer calls)
                    acc = {k: Fraction(0) for k in names}
                    it = iter(calls)
                    for x, y in zip(xs, ys):
                        prev, rem = _loss(y, mp), set(names)
                        for _ in names:
                            sub, r = next(it)
                            f = next(iter(rem - sub))
                            rem = sub
                            new = _loss(y, {'output': sum(p['output'] for p in r) / len(r)})
                            acc[f] += prev - new
                            prev = new
                    ok = all(_close(out[k], acc[k] / N) for k in names)
                if not ok:
                    fails.append({'key': f'efficiency_{mode}', 'summary': f'BatchSage.{mode} N={N} n_inner={n_inner}: values {out} sum {sum(out.values())} '
                                  f'!= mean loss gap {target} (or per-feature averages differ)'})
    # explain_many on data that is NOT what the storage holds: the baseline is the mean prediction over the EXPLAINED data
    st = BatchStorage(store_targets=True)
    for k_ in range(3):
        st.update({'a': Fraction(10 + k_), 'b': Fraction(-7), 'c': Fraction(3 * k_)}, k_)
    ex = BatchSage(_model, names, _loss, n_inner_samples=1, storage=st, imputer=MarginalImputer(_model, 'joint', st))
    xs = [{k: Fraction(rng.randint(-3, 3)) for k in names} for _ in range(3)]
    ys = [rng.randint(-2, 2) for _ in range(3)]
    evals += 1
    distinct.add(('many', 'other_data_than_storage'))
    out = ex.explain_many(xs, ys, verbose=False)
    preds = [_model(x) for x in xs]
    mp = {'output': sum(p['output'] for p in preds) / len(xs)}
    target = sum(_loss(y, mp) - _loss(y, p) for y, p in zip(ys, preds)) / len(xs)
    if not _close(sum(out.values()), target):
        fails.append({'key': 'efficiency_many', 'summary': f'BatchSage.explain_many on data other than the storage content: values sum to '
                      f'{float(sum(out.values()))}, mean loss gap over the explained data {float(target)}'})
    # outputs with DIFFERENT label sets (sparse probability dicts): the baseline is the mean prediction over the union of the labels,
    # a label missing from an output counting as 0
    def sparse_model(x):
        if not isinstance(x, dict):
            return [sparse_model(z) for z in x]
        v = Fraction(x['a']) + 2 * Fraction(x['b'])
        return {'pos': v, 'big': Fraction(1)} if v > 0 else ({'neg': -v} if v < 0 else {'zero': Fraction(1), 'pos': Fraction(0)})

    def sparse_loss(y, p):
        return sum((Fraction(y) - v) ** 2 for v in p.values()) + Fraction(len(p), 4)
    for mode in ('many', 'original'):
        xs = [{'a': Fraction(1), 'b': Fraction(0), 'c': Fraction(2)}, {'a': Fraction(-2), 'b': Fraction(0), 'c': Fraction(1)},
              {'a': Fraction(0), 'b': Fraction(0), 'c': Fraction(0)}, {'a': Fraction(3), 'b': Fraction(-1), 'c': Fraction(1)}]
        ys = [1, 0, 2, -1]
        st = BatchStorage(store_targets=True)
        for x, y in zip(xs, ys):
            st.update(x, y)
        ex = BatchSage(sparse_model, names, sparse_loss, n_inner_samples=1, storage=st, imputer=MarginalImputer(sparse_model, 'joint', st))
        evals += 1
        distinct.add((mode, 'sparse_labels'))
        try:
            out = (ex.explain_many if mode == 'many' else ex.explain_many_original)(xs, ys, verbose=False)
            preds = [sparse_model(x) for x in xs]
            labels = set().union(*preds)
            mp = {l: sum(p.get(l, 0) for p in preds) / len(preds) for l in labels}
            target = sum(sparse_loss(y, mp) - sparse_loss(y, p) for y, p in zip(ys, preds)) / len(xs)
            if not _close(sum(out.values()), target):
                fails.append({'key': f'efficiency_{mode}', 'summary': f'BatchSage.{mode} with outputs of differing label sets: values sum to '
                              f'{float(sum(out.values()))}, the mean loss gap against the mean prediction over all labels is {float(target)}'})
        except Exception as ex_:   # noqa
            fails.append({'key': f'efficiency_{mode}', 'summary': f'BatchSage.{mode} with outputs of differing label sets raised {ex_!r}'})
    # interval schedule
    for interval, length in ((1, 2), (2, 3), (3, 2)):
        cnt = {'n': 0}

        def model(x):
            cnt['n'] += 1 if isinstance(x, dict) else len(x)
            return _model(x)
        ex = IntervalSage(model, names, _loss, n_inner_samples=1, interval_length=interval, storage_length=length)
        stream = [({k: Fraction(rng.randint(-3, 3)) for k in names}, rng.randint(-2, 2)) for _ in range(7)]
        prev = dict(ex.importance_values)
        for t, (x, y) in enumerate(stream, start=1):
            force = (t == 5)
            before = cnt['n']
            out = ex.explain_one(x, y, force_explain=force, verbose=False)
            evals += 1
            distinct.add(('interval', interval, length, t))
            due = force or t % interval == 0
            window = stream[max(0, t - length):t]
            sx, sy = ex._storage.get_data()
            okw = list(sx) == [w[0] for w in window] and list(sy) == [w[1] for w in window] and ex.seen_samples == t
            if due:
                preds = [_model(w[0]) for w in window]
                mp = {'output': sum(p['output'] for p in preds) / len(window)}
                target = sum(_loss(w[1], mp) - _loss(w[1], p) for w, p in zip(window, preds)) / len(window)
                ok = okw and _close(sum(out.values()), target) and cnt['n'] > before
            else:
                ok = okw and out == prev and cnt['n'] == before
            if not ok:
                fails.append({'key': 'interval_schedule', 'summary': f'IntervalSage(interval={interval}, storage={length}) call {t} (forced={force}): '
                              f'due={due}, values {out}, previous {prev}, model calls {cnt["n"] - before}, window ok {okw}'})
                break
            prev = dict(out)
    return [{'name': 'batch_interval_exact', 'evaluations': evals, 'distinct_nontrivial': len(distinct),
             'rule': 'BatchSage both modes x n_inner {1,2} x N {1,2,4} with exact rationals: sum = mean loss gap, per-feature value = average chain '
                     'contribution recomputed from the recorded imputer calls; IntervalSage (interval,storage) in {(1,2),(2,3),(3,2)} x 7 calls incl. a '
                     'forced one: recompute only when due, on exactly the last storage_length observations, otherwise previous values and no model call',
             'bound': '4 observations / 7 calls, 3 features', 'failures': fails}]


def REPLAY(w):
    b = BOUNDED('quick', 0)[0]
    return {'confirmed': bool(b['failures']), 'observed': [f['summary'] for f in b['failures'][:2]]}
