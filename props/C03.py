"""C03 - incremental SAGE credits each feature its loss reduction along the random chain."""
import random
import warnings
from fractions import Fraction

from props._util import same_num, same_dict

ID = 'C03'
LEVEL = 'proof'
CONTRACTS = ['contracts.explainer']
CLOSURE = [
    {'fn': 'IncrementalSage.explain_one', 'clauses': ['chain', 'trackers', 'importance_step', 'variance_step', 'complement_subset',
                                                      'one_full_permutation', 'first_only_seeds', 'remaining', 'contrib_dom',
                                                      'perm_onto', 'perm_distinct', 'perm_names', 'tail', 'cut:*', 'frame', 'calls']},
    {'fn': 'Explainer.marginal_loss'}, {'fn': 'Explainer.model_loss'}, {'fn': 'Explainer.explained_loss', 'clauses': ['value']},
    {'fn': '_get_mean_model_output'},
    {'fn': 'MultiValueTracker.get_normalized'}, {'fn': 'MultiValueTracker.update', 'clauses': ['pointwise', 'count', 'inv:*']},
    {'fn': 'MultiValueTracker.get'},
    {'fn': 'WelfordTracker.update'}, {'fn': 'ExponentialSmoothingTracker.update'},
    {'fn': 'Explainer.importance_values'}, {'fn': 'Explainer.variances'},
]
LEAN = ['ssum_congr', 'ssum_const', 'msum_scale', 'welford_mean_closed', 'es_closed']
EXPLANATION = ("Postcondition of IncrementalSage.explain_one over ghost logs: PERM = the drawn order (one permutation of all feature "
               "names, used in order); in step j the imputer receives exactly the features not yet revealed (the complement of the "
               "coalition), the instance and n inner samples; LS[0] = L(y, normalised running-mean prediction after its update), "
               "LS[j+1] = L(y, mean of the n inner PREDICTIONS) (mean per label, missing label = 0: _get_mean_model_output.mean_def), "
               "credit[PERM[j]] = LS[j] - LS[j+1]; importance / variance (from the UPDATED importance) / marginal loss / model loss / "
               "marginal prediction are steps of the right trackers with these quantities; the reported marginal and model loss both "
               "add the direction offset.")
ASSUMPTIONS = ["A1 floats as reals; A2 deterministic model/loss; imputer interface contract", "feature names distinct, d >= 1, n_inner >= 1"]
TRUSTED_BASE = ["lean 4.33 + Mathlib", "np.random.permutation(n): permutation of range(n)"]
LEVEL_TEXT = ("Deductive proof of the per-observation chain specification and of the tracker steps over the real source, for every order "
              "drawn, every imputer result, scalar or multi-label outputs with growing label sets (MultiValueTracker contract), both modes.")
LEVEL_NOTE = "floats as reals; deterministic callbacks; imputer interface contract"
TECHNIQUE = "contract-based deductive verification with loop invariants over ghost logs (z3/cvc5) + Lean lemmas"
DESIGN_REF = "DESIGN.md 5/C03"


def BOUNDED(tier, seed):
    import numpy as np
    from ixai.explainer import IncrementalSage
    from ixai.imputer import MarginalImputer
    from ixai.storage import UniformReservoirStorage, GeometricReservoirStorage
    warnings.simplefilter('ignore')
    rng = random.Random(seed)
    fails, evals, distinct = [], 0, set()
    for dynamic in (False, True):
        for alpha in (Fraction(1, 2), Fraction(1, 8)):
            for n_inner in (1, 2):
                for names, multi in ((['a', 'b'], False), (['a', 1, 2.5], True)):
                    for bigger in (False, True):
                        seen_labels = []

                        def model(x):
                            s = sum(Fraction(v) * (i + 1) for i, v in enumerate(x.values()))
                            if not multi:
                                return {'output': s}
                            lab = 'pos' if s > 0 else ('neg' if s < 0 else 'zero')     # label sets that grow over time
                            return {lab: Fraction(1), 'bias': Fraction(1, 2)}

                        def loss(y, p):
                            return sum((Fraction(y) - v) ** 2 for v in p.values()) + len(p)
                        if not bigger:
                            # a loss OBJECT that carries a direction attribute of its own: only the explainer's flag decides the offset
                            class _LossObject:
                                bigger_is_better = True

                                def __call__(self, y, p, _f=loss):
                                    return _f(y, p)
                            loss = _LossObject()
                        st = GeometricReservoirStorage(size=3) if dynamic else UniformReservoirStorage(size=3)
                        calls = []

                        class Rec(MarginalImputer):
                            def impute(self, feature_subset, x_i, n_samples=1):
                                r = super().impute(feature_subset, x_i, n_samples)
                                calls.append((set(feature_subset), dict(x_i), n_samples, r))
                                return r
                        ex = IncrementalSage(model, loss, list(names), storage=st, imputer=Rec(model, 'joint', st), smoothing_alpha=alpha,
                                             n_inner_samples=n_inner, dynamic_setting=dynamic, loss_bigger_is_better=bigger)
                        random.seed(seed)
                        np.random.seed(seed)
                        # independent reference state
                        def step(old, v, n):
                            return (1 - alpha) * old + alpha * v if dynamic else old + (v - old) / (n + 1)
                        imp, var, mpred = {}, {}, {}
                        marg = mod = Fraction(0)
                        nexp = 0
                        ok = True
                        for t in range(5):
                            x = {k: Fraction(rng.randint(-3, 3)) for k in names}
                            y = rng.randint(-2, 2)
                            calls.clear()
                            ex.explain_one(x, y)
                            evals += 1
                            distinct.add((dynamic, str(alpha), n_inner, str(names), bigger, t))
                            if t == 0:
                                if calls or ex.importance_values:
                                    ok = False
                                continue
                            pred = model(x)
                            # marginal prediction: per-label running statistic (0 for omitted labels), normalised
                            for lab in set(mpred) | set(pred):
                                if lab in mpred:
                                    mpred[lab] = (step(mpred[lab][0], pred.get(lab, 0), mpred[lab][1]), mpred[lab][1] + 1)
                                else:
                                    mpred[lab] = (step(Fraction(0), pred[lab], 0), 1)
                            raw = {k: v[0] for k, v in mpred.items()}
                            tot = sum(raw.values())
                            norm = raw if len(raw) <= 1 else ({k: v / tot for k, v in raw.items()} if tot != 0 else {k: 0 for k in raw})
                            l_prev = loss(y, norm)
                            l0 = l_prev
                            # the order is read off the imputer calls: each call's subset = complement of the revealed features
                            remaining = set(names)
                            contrib = {}
                            if len(calls) != len(names):
                                ok = False
                            for sub, xi, ns, r in calls:
                                revealed = remaining - sub
                                if len(revealed) != 1 or xi != x or ns != n_inner or not sub <= remaining:
                                    ok = False
                                    break
                                f = next(iter(revealed))
                                remaining = sub
                                labs = set().union(*[set(p) for p in r])
                                mean = {lab: sum(p.get(lab, 0) for p in r) / len(r) for lab in labs}
                                l_new = loss(y, mean)
                                contrib[f] = l_prev - l_new
                                l_prev = l_new
                            if remaining or not ok:
                                ok = False
                            else:
                                for f in names:
                                    imp[f] = step(imp.get(f, Fraction(0)), contrib[f], nexp)
                                for f in names:
                                    var[f] = step(var.get(f, Fraction(0)), (contrib[f] - imp[f]) ** 2, nexp)
                                marg, mod = step(marg, l0, nexp), step(mod, loss(y, pred), nexp)
                                nexp += 1
                                off = 1 if bigger else 0
                                got_i, got_v = dict(ex.importance_values), dict(ex.variances)
                                if not same_dict(got_i, imp) or not same_dict(got_v, var) or abs(float(ex.marginal_loss) - float(marg + off)) > 1e-9 \
                                        or abs(float(ex.model_loss) - float(mod + off)) > 1e-9 \
                                        or not same_dict(dict(ex.marginal_prediction), dict(norm)):
                                    ok = False
                            if not ok:
                                fails.append({'key': 'chain_reference', 'summary': f'IncrementalSage differs from the independent chain reference at '
                                              f'observation {t + 1} (dynamic={dynamic}, alpha={alpha}, n={n_inner}, names={names}, bigger={bigger}): '
                                              f'importance {ex.importance_values} vs {imp}'})
                                break
    return [{'name': 'chain_reference_exact', 'evaluations': evals, 'distinct_nontrivial': len(distinct),
             'rule': 'IncrementalSage with exact rationals and a recording imputer; the feature order is read off the imputer calls (each subset '
                     'must be the complement of the coalition); an independent reference recomputes contributions (loss of the mean of predictions), '
                     'importance, variance, marginal/model loss (with offset) and the normalised marginal prediction on every prefix; scalar and '
                     'multi-label outputs with growing label sets', 'bound': '5 observations, 3 features', 'failures': fails}]


def REPLAY(w):
    b = BOUNDED('quick', 0)[0]
    return {'confirmed': bool(b['failures']), 'observed': [f['summary'] for f in b['failures'][:2]]}
